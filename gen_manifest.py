#!/usr/bin/env python3
"""Regenerates MANIFEST.json from props.py (single source of truth for commands and levels)."""
import json, os, subprocess
from props import PROPS
ROOT = os.path.dirname(os.path.abspath(__file__))
NA = {
    "C13": "not applicable to deterministic simulation: a pure function of a 12-word state (and a fault-free sequential sponge over it); no schedule, clock, fault, crash or interleaving to explore - its failure modes are operand patterns (DESIGN.md §6)",
    "C14": "not applicable to deterministic simulation: stateless arithmetic on operand pairs with no nondeterminism or fault surface; carry/assume branches are input-pattern questions for SMT/exhaustive reasoning (DESIGN.md §6)",
    "C15": "not applicable to deterministic simulation: deterministic sequential transforms; size-threshold branches are reached by choosing sizes, not schedules or faults (DESIGN.md §6)",
}
PENDING = "check not built yet in this framework (planned as a simulated check, DESIGN.md §5); not claimed until its check exists"
ALL = ["C%02d" % i for i in range(1, 21)]
try:
    hooks_commits = subprocess.run(["git", "-C", "/repo", "log", "--format=%H %s"], stdout=subprocess.PIPE, text=True).stdout.splitlines()
    hooks_commits = [l.split()[0] for l in hooks_commits if " verif hooks" in l or l.split(" ", 1)[1].startswith("verif hook")]
except Exception:
    hooks_commits = []
checks = []
for pid in ALL:
    if pid not in PROPS:
        continue
    m = PROPS[pid]
    checks.append({
        "property_id": pid,
        "quick_cmd": "./check %s --tier quick" % pid,
        "thorough_cmd": "./check %s --tier thorough" % pid,
        "evidence_file": "evidence/%s.json" % pid,
        "replay_cmd_template": "./check %s --replay {path}" % pid,
        "engine": "p2sim",
        "level_claimed": {"category": m["level"], "text": m["text"], "design_ref": m["design_ref"]},
        "level_note": m["note"],
        "technique": m["technique"],
    })
na = [{"property_id": p, "reason": NA.get(p, PENDING)} for p in ALL if p not in PROPS]
man = {
    "version": 1,
    "setup_cmd": "./setup.sh",
    "hooks": {
        "guard": "cargo feature verif_hooks (plonky2/verif_hooks, starky/verif_hooks)",
        "enable": "the simulator crate /verif/sim/p2sim depends on /repo/plonky2 and /repo/starky by path with features=[\"verif_hooks\"] (p2sim feature `hooks`, default on); scheduler and entropy seams are [patch.crates-io] shims of rayon and getrandom and need no change in /repo",
        "baseline_off_cmd": "cd /repo && cargo test --workspace --no-fail-fast --offline",
        "source_commits": hooks_commits,
        "add_only": True,
    },
    "engines": [{
        "name": "p2sim", "path": "sim/p2sim",
        "serves_properties": [c["property_id"] for c in checks],
        "kind_free_text": "deterministic simulator: one seeded PRNG decides programs, inputs, configurations, fork-join schedule (rayon shim), prover entropy (getrandom shim) and injected faults; scenarios are replayable JSON; driver ./check fans runs out over processes and merges by run index",
    }],
    "checks": checks,
    "not_applicable": na,
    "notes": "All checks are seeded (VERIF_SEED, default 1) and budgeted in runs, not seconds. Exit 2 = harness error. Known findings: known_findings.jsonl.",
}
json.dump(man, open(os.path.join(ROOT, "MANIFEST.json"), "w"), indent=1)
print("claimed:", [c["property_id"] for c in checks])
