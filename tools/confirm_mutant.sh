#!/bin/bash
# usage: confirm_mutant.sh <worktree> <mutdir (out/mutN)>  -> writes <mutdir>/confirm.log ; exit 0 if confirmed
# Confirms in the scratch worktree: patch applies, demo FAILS with it, whole suite PASSES with it, demo PASSES without it.
WT=$1; M=$2; cd $WT || exit 2
LOG=$M/confirm.log; : > $LOG
git checkout -q -- . ; 
DEMO_CMD=$(python3 -c "import json;print(json.load(open('$M/meta.json'))['demo_cmd'])")
DEMO_PATH=$(python3 -c "import json;print(json.load(open('$M/meta.json'))['demo_path_in_repo'])")
echo "demo_cmd: $DEMO_CMD" >> $LOG
# make sure the demo file is in place
[ -f "$DEMO_PATH" ] || cp $M/$(basename $DEMO_PATH) $DEMO_PATH
echo "== demo WITHOUT patch (expect pass)" >> $LOG
( eval "$DEMO_CMD" ) >> $LOG 2>&1; A=$?
git apply $M/patch.diff || { echo "patch does not apply" >> $LOG; exit 2; }
echo "== demo WITH patch (expect fail)" >> $LOG
( eval "$DEMO_CMD" ) >> $LOG 2>&1; B=$?
echo "== full suite WITH patch (expect pass; demos moved aside)" >> $LOG
mkdir -p /tmp/wt/aside_$$; for f in plonky2/tests/demo_*.rs starky/tests/demo_*.rs field/tests/demo_*.rs; do [ -f "$f" ] && mv $f /tmp/wt/aside_$$/$(echo $f | tr / _); done
cargo test --workspace --offline -j 6 --no-fail-fast -- --test-threads 6 > $M/confirm_suite.log 2>&1; C=$?
grep -E "^test result|FAILED|failed" $M/confirm_suite.log | head -40 >> $LOG
for f in /tmp/wt/aside_$$/*; do [ -f "$f" ] && mv $f $(basename $f | sed 's#_tests_#/tests/#'); done; rmdir /tmp/wt/aside_$$
git checkout -q -- .
echo "RESULT demo_without=$A demo_with=$B suite_with=$C" >> $LOG
[ $A -eq 0 ] && [ $B -ne 0 ] && [ $C -eq 0 ] && echo CONFIRMED >> $LOG
tail -2 $LOG
