#!/bin/bash
# usage: keep_mutant.sh <name> <worktree> <mutdir>   — copies a CONFIRMED mutant into /verif/seeded/<name>/
N=$1; WT=$2; M=$3
grep -q CONFIRMED $M/confirm.log || { echo "not confirmed: $M"; exit 1; }
D=/verif/seeded/$N; mkdir -p $D
cp $M/patch.diff $D/patch.diff
cp $M/*.rs $D/ 2>/dev/null
python3 - "$M" "$D" <<'PY'
import json,sys
m=json.load(open(sys.argv[1]+'/meta.json'))
log=open(sys.argv[1]+'/confirm.log').read().splitlines()
m['confirmed_by_main_session']={'how':'tools/confirm_mutant.sh in the scratch worktree: demo passes without the patch, demo fails with it, `cargo test --workspace --offline` passes with it','result':[l for l in log if l.startswith('RESULT')][-1]}
json.dump(m,open(sys.argv[2]+'/meta.json','w'),indent=1)
PY
echo kept $D
