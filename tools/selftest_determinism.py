#!/usr/bin/env python3
"""Determinism proof (DESIGN §8): every run seed executed several times, in different processes, at different
worker counts and in different build variants; the per-run event digests must be identical.
usage: tools/selftest_determinism.py [PROP ...] [--runs N]"""
import json, os, subprocess, sys
sys.path.insert(0, os.path.dirname(os.path.dirname(os.path.abspath(__file__))))
from props import PROPS
ROOT = os.path.dirname(os.path.dirname(os.path.abspath(__file__)))
args = sys.argv[1:]
runs = int(args[args.index("--runs") + 1]) if "--runs" in args else 200
props = [a for a in args if a in PROPS] or [p for p in PROPS]
bad = 0
for prop in props:
    logs = {}
    for variant in ("v0", "v1"):
        binary = os.path.join(ROOT, "target", variant, "release", "p2sim")
        if not os.path.exists(binary):
            continue
        for jobs in (1, 5, 16):
            if jobs == 1 and runs > 50:
                n = 50
            else:
                n = runs
            wd = os.path.join(ROOT, "work", "selftest", prop, "%s-j%d" % (variant, jobs))
            os.makedirs(wd, exist_ok=True)
            procs = []
            for w in range(jobs):
                ev = os.path.join(wd, "w%d.events" % w)
                procs.append((ev, subprocess.Popen([binary, "run", "--property", prop, "--from", "0", "--to", str(n), "--worker", str(w), "--workers", str(jobs),
                                                    "--out", os.path.join(wd, "w%d.json" % w), "--event-log", ev], stderr=subprocess.DEVNULL)))
            d = {}
            for ev, p in procs:
                p.wait()
                for line in open(ev):
                    i, h = line.split()
                    d[int(i)] = h
            logs[(variant, jobs)] = d
    keys = list(logs)
    ref = logs[keys[0]]
    for k in keys[1:]:
        # C19 emits variant-dependent observations only through digests that must be equal; all event logs must agree
        diff = [i for i in logs[k] if i in ref and logs[k][i] != ref[i]]
        same_variant = k[0] == keys[0][0]
        if diff:
            print("%s: %s vs %s: %d run(s) differ, e.g. run %d%s" % (prop, keys[0], k, len(diff), diff[0], "" if same_variant else " (different build variant)"))
            if same_variant:
                bad += 1
    print("%s: %d configurations x up to %d run seeds compared" % (prop, len(keys), runs))
sys.exit(1 if bad else 0)
