#!/bin/bash
# usage: tools/run_all.sh [quick|thorough] [ids...]  — runs the registered checks sequentially, one summary line each
cd /verif; T=${1:-quick}; shift
IDS=${@:-$(python3 -c "from props import PROPS; print(' '.join(sorted(PROPS)))")}
for id in $IDS; do
  S=$(date +%s); ./check $id --tier $T > work/$id.$T.out 2> work/$id.$T.err; RC=$?
  echo "$id rc=$RC $(( $(date +%s)-S ))s $(grep -c '^VIOLATION' work/$id.$T.out) violations $(grep -c '^KNOWN' work/$id.$T.out) known | $(tail -1 work/$id.$T.err | cut -c1-160)"
done
