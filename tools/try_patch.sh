#!/bin/bash
# usage: try_patch.sh <patch.diff> <property> [more check args]   — applies the patch to /repo, runs the check, reverts.
P=$1; shift
git -C /repo apply "$P" || { echo "patch does not apply"; exit 2; }
cd /verif && ./check "$@"; RC=$?
git -C /repo checkout -- .
echo "check exit code: $RC"
exit $RC
