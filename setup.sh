#!/bin/sh
# Builds the simulator variants the quick checks need, offline, from files on disk only.
set -e
cd "$(dirname "$0")"
export CARGO_NET_OFFLINE=true
python3 - <<'PY'
import sys
sys.argv = ["check"]
sys.path.insert(0, ".")
import importlib.machinery, importlib.util
loader = importlib.machinery.SourceFileLoader("check_mod", "./check")
spec = importlib.util.spec_from_loader("check_mod", loader)
m = importlib.util.module_from_spec(spec)
loader.exec_module(m)
for v in ("v0", "v1", "v3"):
    m.build_or_die(v)
PY
