//! Deterministic single-threaded stand-in for `rayon`, used only by the /verif simulator.
//!
//! Every scheduling decision (order of the two halves of a `join`, whether the right half of a
//! split is "stolen" and how stolen halves interleave, which grinding worker advances next) is
//! drawn from one decision source owned by the simulator: either a SplitMix64 stream seeded per
//! run, or an explicit decision list (replay / minimisation; exhausted list => decision 0).
//! With `workers == 1` the behaviour is that of real rayon on one thread: left to right.
use std::cell::RefCell;
use std::ops::{Range, RangeInclusive};

pub mod sim {
    use super::*;

    #[derive(Clone, Debug, Default)]
    pub struct Stats {
        pub decisions: u64,
        pub trace: u64,
        pub joins: u64,
        pub join_swapped: u64,
        pub stages: u64,
        pub stage_items: u64,
        pub steals: u64,
        pub find_any_calls: u64,
        pub find_any_candidates: u64,
    }

    #[derive(Clone, Debug)]
    pub struct Sched {
        pub state: u64,
        pub workers: usize,
        pub explicit: Option<Vec<u64>>,
        pub cursor: usize,
        pub record: Option<Vec<u64>>,
        pub stats: Stats,
    }

    thread_local! {
        pub static SCHED: RefCell<Sched> = RefCell::new(Sched {
            state: 0, workers: 1, explicit: None, cursor: 0, record: None, stats: Stats::default(),
        });
    }

    /// Arm a seeded schedule for this thread.
    pub fn set(seed: u64, workers: usize) {
        SCHED.with(|s| {
            *s.borrow_mut() = Sched {
                state: seed, workers: workers.max(1), explicit: None, cursor: 0, record: None,
                stats: Stats::default(),
            }
        });
    }

    /// Arm an explicit decision list (replay); once exhausted every decision is 0.
    pub fn set_explicit(decisions: Vec<u64>, workers: usize) {
        SCHED.with(|s| {
            *s.borrow_mut() = Sched {
                state: 0, workers: workers.max(1), explicit: Some(decisions), cursor: 0,
                record: None, stats: Stats::default(),
            }
        });
    }

    /// Start recording the decisions taken (for replay files).
    pub fn record(on: bool) {
        SCHED.with(|s| s.borrow_mut().record = if on { Some(Vec::new()) } else { None });
    }

    pub fn recorded() -> Vec<u64> {
        SCHED.with(|s| s.borrow().record.clone().unwrap_or_default())
    }

    pub fn stats() -> Stats {
        SCHED.with(|s| s.borrow().stats.clone())
    }

    pub fn workers() -> usize {
        SCHED.with(|s| s.borrow().workers)
    }

    pub(crate) fn bump<F: FnOnce(&mut Stats)>(f: F) {
        SCHED.with(|s| f(&mut s.borrow_mut().stats));
    }

    pub(crate) fn next(bound: u64) -> u64 {
        SCHED.with(|s| {
            let mut s = s.borrow_mut();
            let raw = if s.explicit.is_some() {
                let c = s.cursor;
                s.cursor += 1;
                s.explicit.as_ref().unwrap().get(c).copied().unwrap_or(0)
            } else {
                s.state = s.state.wrapping_add(0x9E3779B97F4A7C15);
                let mut z = s.state;
                z = (z ^ (z >> 30)).wrapping_mul(0xBF58476D1CE4E5B9);
                z = (z ^ (z >> 27)).wrapping_mul(0x94D049BB133111EB);
                z ^ (z >> 31)
            };
            let r = if bound == 0 { 0 } else { raw % bound };
            s.stats.decisions += 1;
            s.stats.trace = (s.stats.trace ^ r).wrapping_mul(0x100000001b3).rotate_left(5);
            if let Some(rec) = s.record.as_mut() {
                rec.push(r);
            }
            r
        })
    }

    /// A linearisation of the fork-join tree rayon's bridge would build over `n` items.
    pub(crate) fn order(n: usize) -> Vec<usize> {
        let w = workers();
        bump(|st| {
            st.stages += 1;
            st.stage_items += n as u64;
        });
        if w <= 1 || n <= 1 {
            return (0..n).collect();
        }
        let grain = std::cmp::max(1, n / (2 * w));
        fn rec(lo: usize, hi: usize, grain: usize) -> Vec<usize> {
            if hi - lo <= grain {
                return (lo..hi).collect();
            }
            let mid = lo + (hi - lo) / 2;
            let l = rec(lo, mid, grain);
            let r = rec(mid, hi, grain);
            if next(2) == 0 {
                let mut v = l;
                v.extend(r);
                v
            } else {
                bump(|st| st.steals += 1);
                let mut out = Vec::with_capacity(l.len() + r.len());
                let (mut i, mut j) = (0, 0);
                while i < l.len() || j < r.len() {
                    let take_l = if i >= l.len() {
                        false
                    } else if j >= r.len() {
                        true
                    } else {
                        next(2) == 0
                    };
                    if take_l {
                        let e = std::cmp::min(l.len(), i + grain);
                        out.extend_from_slice(&l[i..e]);
                        i = e;
                    } else {
                        let e = std::cmp::min(r.len(), j + grain);
                        out.extend_from_slice(&r[j..e]);
                        j = e;
                    }
                }
                out
            }
        }
        rec(0, n, grain)
    }
}

pub fn current_num_threads() -> usize {
    sim::workers()
}

pub fn join<A, B, RA, RB>(a: A, b: B) -> (RA, RB)
where
    A: FnOnce() -> RA + Send,
    B: FnOnce() -> RB + Send,
    RA: Send,
    RB: Send,
{
    sim::bump(|s| s.joins += 1);
    if sim::workers() > 1 && sim::next(2) == 1 {
        sim::bump(|s| s.join_swapped += 1);
        let rb = b();
        let ra = a();
        (ra, rb)
    } else {
        let ra = a();
        let rb = b();
        (ra, rb)
    }
}

/// Universal materialised parallel iterator.
pub struct ParVec<T>(pub Vec<T>);

fn run_indexed<T, R, F: Fn(usize, T) -> R>(items: Vec<T>, f: F) -> Vec<R> {
    let n = items.len();
    let mut slots: Vec<Option<T>> = items.into_iter().map(Some).collect();
    let mut out: Vec<Option<R>> = (0..n).map(|_| None).collect();
    for i in sim::order(n) {
        out[i] = Some(f(i, slots[i].take().unwrap()));
    }
    out.into_iter().map(|x| x.unwrap()).collect()
}

pub mod iter {
    use super::*;

    pub trait ParallelIterator: Sized {
        type Item: Send;
        fn into_items(self) -> Vec<Self::Item>;
        fn map<F, R>(self, f: F) -> ParVec<R>
        where
            F: Fn(Self::Item) -> R + Sync + Send,
            R: Send,
        {
            ParVec(run_indexed(self.into_items(), |_, x| f(x)))
        }
        fn for_each<F>(self, f: F)
        where
            F: Fn(Self::Item) + Sync + Send,
        {
            run_indexed(self.into_items(), |_, x| f(x));
        }
        fn flat_map<F, PI>(self, f: F) -> ParVec<PI::Item>
        where
            F: Fn(Self::Item) -> PI + Sync + Send,
            PI: IntoParallelIterator,
        {
            let parts = run_indexed(self.into_items(), |_, x| f(x).into_par_iter().into_items());
            ParVec(parts.into_iter().flatten().collect())
        }
        fn flat_map_iter<F, SI>(self, f: F) -> ParVec<SI::Item>
        where
            F: Fn(Self::Item) -> SI + Sync + Send,
            SI: IntoIterator,
            SI::Item: Send,
        {
            let parts = run_indexed(self.into_items(), |_, x| f(x).into_iter().collect::<Vec<_>>());
            ParVec(parts.into_iter().flatten().collect())
        }
        fn filter<P>(self, p: P) -> ParVec<Self::Item>
        where
            P: Fn(&Self::Item) -> bool + Sync + Send,
        {
            let kept = run_indexed(self.into_items(), |_, x| if p(&x) { Some(x) } else { None });
            ParVec(kept.into_iter().flatten().collect())
        }
        fn chain<C>(self, c: C) -> ParVec<Self::Item>
        where
            C: IntoParallelIterator<Item = Self::Item>,
        {
            let mut v = self.into_items();
            v.extend(c.into_par_iter().into_items());
            ParVec(v)
        }
        fn find_any<P>(self, p: P) -> Option<Self::Item>
        where
            P: Fn(&Self::Item) -> bool + Sync + Send,
        {
            sim::bump(|s| s.find_any_calls += 1);
            let items = self.into_items();
            let n = items.len();
            let mut slots: Vec<Option<Self::Item>> = items.into_iter().map(Some).collect();
            for i in sim::order(n) {
                sim::bump(|s| s.find_any_candidates += 1);
                if p(slots[i].as_ref().unwrap()) {
                    return slots[i].take();
                }
            }
            None
        }
        fn all<P>(self, p: P) -> bool
        where
            P: Fn(Self::Item) -> bool + Sync + Send,
        {
            run_indexed(self.into_items(), |_, x| p(x)).into_iter().all(|b| b)
        }
        fn any<P>(self, p: P) -> bool
        where
            P: Fn(Self::Item) -> bool + Sync + Send,
        {
            run_indexed(self.into_items(), |_, x| p(x)).into_iter().any(|b| b)
        }
        fn count(self) -> usize {
            self.into_items().len()
        }
        fn sum<S>(self) -> S
        where
            S: Send + std::iter::Sum<Self::Item>,
        {
            self.into_items().into_iter().sum()
        }
        fn collect<C>(self) -> C
        where
            C: FromParallelIterator<Self::Item>,
        {
            C::from_par_vec(self.into_items())
        }
    }

    pub trait IndexedParallelIterator: ParallelIterator {
        fn len(&self) -> usize;
        fn enumerate(self) -> ParVec<(usize, Self::Item)> {
            ParVec(self.into_items().into_iter().enumerate().collect())
        }
        fn zip<Z>(self, z: Z) -> ParVec<(Self::Item, Z::Item)>
        where
            Z: IntoParallelIterator,
        {
            ParVec(self.into_items().into_iter().zip(z.into_par_iter().into_items()).collect())
        }
        fn step_by(self, s: usize) -> ParVec<Self::Item> {
            ParVec(self.into_items().into_iter().step_by(s).collect())
        }
        fn rev(self) -> ParVec<Self::Item> {
            ParVec(self.into_items().into_iter().rev().collect())
        }
        fn skip(self, n: usize) -> ParVec<Self::Item> {
            ParVec(self.into_items().into_iter().skip(n).collect())
        }
        fn take(self, n: usize) -> ParVec<Self::Item> {
            ParVec(self.into_items().into_iter().take(n).collect())
        }
        fn collect_into_vec(self, target: &mut Vec<Self::Item>) {
            *target = self.into_items();
        }
    }

    pub trait FromParallelIterator<T> {
        fn from_par_vec(v: Vec<T>) -> Self;
    }
    impl<T: Send> FromParallelIterator<T> for Vec<T> {
        fn from_par_vec(v: Vec<T>) -> Self {
            v
        }
    }

    pub trait IntoParallelIterator {
        type Iter: ParallelIterator<Item = Self::Item>;
        type Item: Send;
        fn into_par_iter(self) -> Self::Iter;
    }
    pub trait IntoParallelRefIterator<'data> {
        type Iter: ParallelIterator<Item = Self::Item>;
        type Item: Send + 'data;
        fn par_iter(&'data self) -> Self::Iter;
    }
    pub trait IntoParallelRefMutIterator<'data> {
        type Iter: ParallelIterator<Item = Self::Item>;
        type Item: Send + 'data;
        fn par_iter_mut(&'data mut self) -> Self::Iter;
    }
    impl<'data, I: 'data + ?Sized> IntoParallelRefIterator<'data> for I
    where
        &'data I: IntoParallelIterator,
    {
        type Iter = <&'data I as IntoParallelIterator>::Iter;
        type Item = <&'data I as IntoParallelIterator>::Item;
        fn par_iter(&'data self) -> Self::Iter {
            self.into_par_iter()
        }
    }
    impl<'data, I: 'data + ?Sized> IntoParallelRefMutIterator<'data> for I
    where
        &'data mut I: IntoParallelIterator,
    {
        type Iter = <&'data mut I as IntoParallelIterator>::Iter;
        type Item = <&'data mut I as IntoParallelIterator>::Item;
        fn par_iter_mut(&'data mut self) -> Self::Iter {
            self.into_par_iter()
        }
    }
    impl<T: ParallelIterator> IntoParallelIterator for T {
        type Iter = T;
        type Item = T::Item;
        fn into_par_iter(self) -> T {
            self
        }
    }

    impl<T: Send> ParallelIterator for ParVec<T> {
        type Item = T;
        fn into_items(self) -> Vec<T> {
            self.0
        }
    }
    impl<T: Send> IndexedParallelIterator for ParVec<T> {
        fn len(&self) -> usize {
            self.0.len()
        }
    }

    impl<T: Send> IntoParallelIterator for Vec<T> {
        type Iter = ParVec<T>;
        type Item = T;
        fn into_par_iter(self) -> ParVec<T> {
            ParVec(self)
        }
    }
    impl<'a, T: Sync + 'a> IntoParallelIterator for &'a Vec<T> {
        type Iter = ParVec<&'a T>;
        type Item = &'a T;
        fn into_par_iter(self) -> Self::Iter {
            ParVec(self.iter().collect())
        }
    }
    impl<'a, T: Sync + 'a> IntoParallelIterator for &'a [T] {
        type Iter = ParVec<&'a T>;
        type Item = &'a T;
        fn into_par_iter(self) -> Self::Iter {
            ParVec(self.iter().collect())
        }
    }
    impl<'a, T: Send + 'a> IntoParallelIterator for &'a mut [T] {
        type Iter = ParVec<&'a mut T>;
        type Item = &'a mut T;
        fn into_par_iter(self) -> Self::Iter {
            ParVec(self.iter_mut().collect())
        }
    }
    impl<'a, T: Send + 'a> IntoParallelIterator for &'a mut Vec<T> {
        type Iter = ParVec<&'a mut T>;
        type Item = &'a mut T;
        fn into_par_iter(self) -> Self::Iter {
            ParVec(self.iter_mut().collect())
        }
    }
    impl<T: Send, const N: usize> IntoParallelIterator for [T; N] {
        type Iter = ParVec<T>;
        type Item = T;
        fn into_par_iter(self) -> ParVec<T> {
            ParVec(self.into_iter().collect())
        }
    }

    /// Lazy integer range (needed for the 2^64 grinding search).
    pub struct RangeIter {
        pub lo: u128,
        pub hi: u128,
    }
    pub struct TypedRange<T>(pub RangeIter, pub std::marker::PhantomData<T>);

    macro_rules! range_impl {
        ($t:ty) => {
            impl IntoParallelIterator for Range<$t> {
                type Iter = TypedRange<$t>;
                type Item = $t;
                fn into_par_iter(self) -> Self::Iter {
                    let lo = self.start as u128;
                    let hi = std::cmp::max(self.end as u128, lo);
                    TypedRange(RangeIter { lo, hi }, std::marker::PhantomData)
                }
            }
            impl IntoParallelIterator for RangeInclusive<$t> {
                type Iter = TypedRange<$t>;
                type Item = $t;
                fn into_par_iter(self) -> Self::Iter {
                    let lo = *self.start() as u128;
                    let hi = if self.is_empty() { lo } else { *self.end() as u128 + 1 };
                    TypedRange(RangeIter { lo, hi }, std::marker::PhantomData)
                }
            }
            impl ParallelIterator for TypedRange<$t> {
                type Item = $t;
                fn into_items(self) -> Vec<$t> {
                    assert!(self.0.hi - self.0.lo <= (1u128 << 28), "range too large to materialise");
                    (self.0.lo..self.0.hi).map(|x| x as $t).collect()
                }
                /// Grinding-style search: the range is cut into `workers` chunks; simulated workers
                /// advance in blocks of 64 candidates in seeded interleaving; the first hit wins.
                fn find_any<P>(self, p: P) -> Option<$t>
                where
                    P: Fn(&$t) -> bool + Sync + Send,
                {
                    sim::bump(|s| s.find_any_calls += 1);
                    let (lo, hi) = (self.0.lo, self.0.hi);
                    let n = hi - lo;
                    if n == 0 {
                        return None;
                    }
                    let w = std::cmp::max(1, sim::workers()) as u128;
                    let chunk = (n + w - 1) / w;
                    let mut cur: Vec<u128> = (0..w).map(|k| lo + k * chunk).collect();
                    let ends: Vec<u128> =
                        (0..w).map(|k| std::cmp::min(hi, lo + (k + 1) * chunk)).collect();
                    loop {
                        let live: Vec<usize> =
                            (0..w as usize).filter(|&k| cur[k] < ends[k]).collect();
                        if live.is_empty() {
                            return None;
                        }
                        let k = if live.len() == 1 {
                            live[0]
                        } else {
                            live[sim::next(live.len() as u64) as usize]
                        };
                        for _ in 0..64 {
                            if cur[k] >= ends[k] {
                                break;
                            }
                            let c = cur[k] as $t;
                            cur[k] += 1;
                            sim::bump(|s| s.find_any_candidates += 1);
                            if p(&c) {
                                return Some(c);
                            }
                        }
                    }
                }
            }
            impl IndexedParallelIterator for TypedRange<$t> {
                fn len(&self) -> usize {
                    (self.0.hi - self.0.lo) as usize
                }
            }
        };
    }
    range_impl!(usize);
    range_impl!(u64);
    range_impl!(u32);

    pub trait ParallelDrainFull {}
    pub trait ParallelDrainRange {}
    pub trait ParallelExtend<T> {}
}

pub mod slice {
    use super::iter::*;
    use super::*;
    pub type Chunks<'a, T> = ParVec<&'a [T]>;
    pub type ChunksExact<'a, T> = ParVec<&'a [T]>;
    pub type ChunksMut<'a, T> = ParVec<&'a mut [T]>;
    pub type ChunksExactMut<'a, T> = ParVec<&'a mut [T]>;
    pub trait ParallelSlice<T: Sync> {
        fn as_parallel_slice(&self) -> &[T];
        fn par_chunks(&self, n: usize) -> Chunks<'_, T> {
            ParVec(self.as_parallel_slice().chunks(n).collect())
        }
        fn par_chunks_exact(&self, n: usize) -> ChunksExact<'_, T> {
            ParVec(self.as_parallel_slice().chunks_exact(n).collect())
        }
    }
    impl<T: Sync> ParallelSlice<T> for [T] {
        fn as_parallel_slice(&self) -> &[T] {
            self
        }
    }
    pub trait ParallelSliceMut<T: Send> {
        fn as_parallel_slice_mut(&mut self) -> &mut [T];
        fn par_chunks_mut(&mut self, n: usize) -> ChunksMut<'_, T> {
            ParVec(self.as_parallel_slice_mut().chunks_mut(n).collect())
        }
        fn par_chunks_exact_mut(&mut self, n: usize) -> ChunksExactMut<'_, T> {
            ParVec(self.as_parallel_slice_mut().chunks_exact_mut(n).collect())
        }
    }
    impl<T: Send> ParallelSliceMut<T> for [T] {
        fn as_parallel_slice_mut(&mut self) -> &mut [T] {
            self
        }
    }
    #[allow(unused_imports)]
    use IntoParallelIterator as _;
}

pub mod prelude {
    pub use crate::iter::{
        FromParallelIterator, IndexedParallelIterator, IntoParallelIterator,
        IntoParallelRefIterator, IntoParallelRefMutIterator, ParallelDrainFull, ParallelDrainRange,
        ParallelExtend, ParallelIterator,
    };
    pub use crate::slice::{ParallelSlice, ParallelSliceMut};
}
