//! Seeded stand-in for `getrandom 0.2`, used only by the /verif simulator.
//!
//! `OsRng` (rand_core) calls `getrandom::getrandom`. Inside a simulated run the bytes come from a
//! thread-local SplitMix64 stream armed by the simulator (or a degenerate source: all-zero,
//! all-ones, constant byte). Unarmed (e.g. proc-macros at build time) it reads /dev/urandom.
use std::cell::RefCell;
use std::num::NonZeroU32;

#[derive(Copy, Clone, Eq, PartialEq, Debug)]
pub struct Error(NonZeroU32);
impl Error {
    pub const UNSUPPORTED: Error = Error(unsafe { NonZeroU32::new_unchecked(1 << 31) });
    pub const INTERNAL_START: u32 = 1 << 31;
    pub const CUSTOM_START: u32 = (1 << 31) + (1 << 30);
    pub fn raw_os_error(self) -> Option<i32> {
        if self.0.get() < Self::INTERNAL_START {
            Some(self.0.get() as i32)
        } else {
            None
        }
    }
    pub const fn code(self) -> NonZeroU32 {
        self.0
    }
}
impl From<NonZeroU32> for Error {
    fn from(c: NonZeroU32) -> Self {
        Error(c)
    }
}
impl std::fmt::Display for Error {
    fn fmt(&self, f: &mut std::fmt::Formatter<'_>) -> std::fmt::Result {
        write!(f, "getrandom shim error {}", self.0)
    }
}
impl std::error::Error for Error {}

#[derive(Copy, Clone, Debug, PartialEq, Eq)]
pub enum Mode {
    /// SplitMix64 stream from the seed.
    Stream,
    /// Every byte 0x00.
    Zero,
    /// Every byte 0xff.
    Ones,
    /// Every byte equal to the low byte of the seed.
    Constant,
}

#[derive(Copy, Clone)]
struct State {
    mode: Mode,
    seed: u64,
    st: u64,
    consumed: u64,
}

thread_local! { static STATE: RefCell<Option<State>> = RefCell::new(None); }

/// Arm the seeded stream for this thread; `None` returns to the OS source.
pub fn verif_seed(seed: Option<u64>) {
    verif_arm(seed.map(|s| (s, Mode::Stream)));
}

pub fn verif_arm(cfg: Option<(u64, Mode)>) {
    STATE.with(|s| {
        *s.borrow_mut() = cfg.map(|(seed, mode)| State { mode, seed, st: seed, consumed: 0 })
    });
}

/// Bytes handed out since arming.
pub fn verif_consumed() -> u64 {
    STATE.with(|s| s.borrow().map(|x| x.consumed).unwrap_or(0))
}

pub fn getrandom(dest: &mut [u8]) -> Result<(), Error> {
    let armed = STATE.with(|s| {
        let mut s = s.borrow_mut();
        if let Some(st) = s.as_mut() {
            for b in dest.iter_mut() {
                *b = match st.mode {
                    Mode::Stream => {
                        st.st = st.st.wrapping_add(0x9E3779B97F4A7C15);
                        let mut z = st.st;
                        z = (z ^ (z >> 30)).wrapping_mul(0xBF58476D1CE4E5B9);
                        z = (z ^ (z >> 27)).wrapping_mul(0x94D049BB133111EB);
                        (z ^ (z >> 31)) as u8
                    }
                    Mode::Zero => 0,
                    Mode::Ones => 0xff,
                    Mode::Constant => st.seed as u8,
                };
                st.consumed += 1;
            }
            true
        } else {
            false
        }
    });
    if !armed {
        use std::io::Read;
        std::fs::File::open("/dev/urandom")
            .and_then(|mut f| f.read_exact(dest))
            .map_err(|_| Error::UNSUPPORTED)?;
    }
    Ok(())
}
