//! C10 — STARK lookups (and cross-table lookups) hold iff the looked-up values are present.
//! Part (i): column lookups inside one table — looking columns (single, linear combination,
//! next-row), filters, table and frequencies columns; oracle = multiset equality computed directly.
use plonky2::plonk::config::GenericConfig;
use serde::{Deserialize, Serialize};
use serde_json::{json, Value};

use crate::c09::{stark_prove, stark_verify, SCfg};
use crate::core::*;
use crate::pipeline::{KC, PC};
use crate::prog::*;
use crate::refmath as rm;
use crate::stark::*;
use crate::with_stark;

#[derive(Clone, Debug, Serialize, Deserialize)]
pub struct Case {
    pub inst: Instance,
    pub cfg: SCfg,
    pub sched: Sched,
    pub fault_seed: u64,
    /// replay: (row, col, new value)
    #[serde(default)]
    pub only: Option<(usize, usize, u64)>,
}

/// A table with lookups and a trace that satisfies them.
pub fn gen_lookup_instance(r: &mut Rng, log_n: usize) -> Instance {
    let n = 1usize << log_n;
    let (cols, pis) = *r.pick(&[(3usize, 2usize), (4, 1), (6, 4), (8, 2)]);
    // column roles
    let (table, freq) = (cols - 2, cols - 1);
    let avail: Vec<usize> = (0..cols - 2).collect();
    let n_looking = r.range(1, avail.len().min(3));
    let mut rows: Vec<Vec<u64>> = (0..n).map(|_| (0..cols).map(|_| 0u64).collect()).collect();
    // table values: an arithmetic progression, possibly with repeated values
    let base = r.below(1 << 20);
    let stride = 1 + r.below(5);
    let dup = r.chance(1, 3);
    for i in 0..n {
        let k = if dup && i > 0 && r.chance(1, 4) { r.usize(i) as u64 } else { i as u64 };
        rows[i][table] = rm::add(base, rm::mul(stride, k));
    }
    let tvals: Vec<u64> = rows.iter().map(|x| x[table]).collect();
    let mut looking: Vec<ColSpec> = Vec::new();
    let mut filters: Vec<Option<usize>> = Vec::new();
    let mut filters_next: Vec<bool> = Vec::new();
    let mut used = 0usize;
    let mut constraints = Vec::new();
    for li in 0..n_looking {
        if used >= avail.len() {
            break;
        }
        let c = avail[used];
        used += 1;
        let kind = r.below(4);
        // a filter column if one is left
        let filt = if used < avail.len() && r.chance(1, 2) && avail.len() - used > (n_looking - li - 1) {
            let f = avail[used];
            used += 1;
            for i in 0..n {
                rows[i][f] = r.chance(2, 3) as u64;
            }
            // filters must be boolean: stated as an every-row constraint of the table
            constraints.push(Cons { kind: Kind::All, poly: vec![Term { coef: 1, vars: vec![Var::L(f), Var::L(f)] }, Term { coef: rm::P - 1, vars: vec![Var::L(f)] }] });
            Some(f)
        } else {
            None
        };
        // every fourth filter selects by the filter column's next-row value
        let fnext = filt.is_some() && r.chance(1, 4);
        let on = |rows: &Vec<Vec<u64>>, i: usize| filt.map_or(true, |f| rows[if fnext { (i + 1) % n } else { i }][f] == 1);
        match kind {
            0 | 1 => {
                // single column (or scaled + constant): a*col + k
                let (a, k) = if kind == 0 { (1u64, 0u64) } else { (1 + r.below(7), r.below(1 << 16)) };
                for i in 0..n {
                    let v = if on(&rows, i) { tvals[r.usize(n)] } else { r.felt() };
                    rows[i][c] = rm::mul(rm::sub(v, k), rm::inv(a));
                }
                looking.push(ColSpec { local: vec![(c, a)], next: vec![], constant: k });
            }
            2 => {
                // the next row's value of the column
                for i in 0..n {
                    let v = if on(&rows, i) { tvals[r.usize(n)] } else { r.felt() };
                    rows[(i + 1) % n][c] = v;
                }
                looking.push(ColSpec { local: vec![], next: vec![(c, 1)], constant: 0 });
            }
            _ => {
                // linear combination of this column and the table column of the same row
                let (a, b) = (1 + r.below(5), 1 + r.below(5));
                for i in 0..n {
                    let v = if on(&rows, i) { tvals[r.usize(n)] } else { r.felt() };
                    rows[i][c] = rm::mul(rm::sub(v, rm::mul(b, rows[i][table])), rm::inv(a));
                }
                looking.push(ColSpec { local: vec![(c, a), (table, b)], next: vec![], constant: 0 });
            }
        }
        filters.push(filt);
        filters_next.push(fnext);
    }
    // spare columns are free
    for c in used..cols - 2 {
        for i in 0..n {
            rows[i][c] = r.felt_biased();
        }
    }
    let spec = LookupSpec { looking, filters, filters_next, table, freq };
    let mut def = Def { cols, pis, constraints, degree: r.range(2, 3), lookups: vec![spec], ctl: false };
    // frequencies: count on the first occurrence of each table value
    fill_frequencies(&mut def, &mut rows);
    let pv: Vec<u64> = (0..pis).map(|_| r.felt_biased()).collect();
    Instance { def, log_n, rows, pis: pv }
}

fn fill_frequencies(def: &mut Def, rows: &mut Vec<Vec<u64>>) {
    use std::collections::BTreeMap;
    let n = rows.len();
    for l in def.lookups.clone() {
        let mut want: BTreeMap<u64, u64> = BTreeMap::new();
        for r in 0..n {
            for (k, cs) in l.looking.iter().enumerate() {
                if l.filter_value(k, rows, r).map_or(true, |x| x == 1) {
                    let mut acc = cs.constant % rm::P;
                    for (c, a) in &cs.local {
                        acc = rm::add(acc, rm::mul(*a, rows[r][*c]));
                    }
                    for (c, a) in &cs.next {
                        acc = rm::add(acc, rm::mul(*a, rows[(r + 1) % n][*c]));
                    }
                    *want.entry(acc).or_insert(0) += 1;
                }
            }
        }
        for r in 0..n {
            rows[r][l.freq] = want.remove(&rows[r][l.table]).unwrap_or(0);
        }
    }
}

pub fn gen(rng: &mut Rng, tier: Tier) -> Value {
    {
        // a third of the runs: a multi-table system with cross-table lookups
        let mut rk = rng.sub("c10ctl");
        if rk.chance(1, 3) {
            let mut rs = rng.sub("schedule");
            return json!({"ctl": crate::ctl::gen_case(&mut rk, &mut rs)});
        }
    }
    let mut r = rng.sub("c10");
    let log_n = if tier == Tier::Quick { r.range(2, 6) } else { r.range(1, 9) };
    let inst = gen_lookup_instance(&mut r, log_n);
    let cfg = SCfg::draw(&mut r, log_n, inst.def.degree, false);
    let mut rs = rng.sub("schedule");
    serde_json::to_value(Case { inst, cfg, sched: Sched::draw(&mut rs), fault_seed: r.u64(), only: None }).unwrap()
}

fn viol(rep: &mut Report, case: &Case, f: Option<(usize, usize, u64)>, role: &str, oracle: &str, detail: String) {
    let mut c = case.clone();
    c.only = f;
    rep.violation("C10", oracle, &format!("C10|{oracle}|{role}"), detail, serde_json::to_value(&c).unwrap());
}

fn exec_s<C: GenericConfig<D, F = F>, const COLS: usize, const PIS: usize>(case: &Case, rep: &mut Report) {
    let inst = &case.inst;
    let def = &inst.def;
    let n = inst.rows.len();
    let scfg = match case.cfg.admissible(inst.log_n) {
        Some(c) => c,
        None => {
            rep.skip("no admissible FRI parameters for this trace length");
            return;
        }
    };
    let cfg = scfg.to_config();
    let refcheck = |rows: &Vec<Vec<u64>>| -> Option<String> {
        if let Some((c, r)) = def.check(rows, &inst.pis) {
            return Some(format!("constraint {c} at row {r}"));
        }
        def.check_lookups(rows).map(|(l, s)| format!("lookup {l}: {s}"))
    };
    if refcheck(&inst.rows).is_some() {
        rep.skip("harness: generated lookup trace does not satisfy its definition");
        return;
    }
    let l = &def.lookups[0];
    let base_sig = hash_value(&json!([def, inst.log_n])) ^ hash_str(&scfg.class()) ^ fnv(&inst.rows.iter().flat_map(|r| r.iter().flat_map(|x| x.to_le_bytes())).collect::<Vec<u8>>());
    rep.probe(&format!("c10.looking_columns.{}", l.looking.len()));
    rep.probe(&format!("c10.constraint_degree.{}", def.degree));
    if l.filters.iter().any(|f| f.is_some()) {
        rep.probe("c10.filtered_lookup");
    }
    if (0..l.filters.len()).any(|k| l.filter_reads_next(k)) {
        rep.probe("c10.next_row_filter");
    }
    if l.looking.iter().any(|c| !c.next.is_empty()) {
        rep.probe("c10.next_row_column");
    }
    if l.looking.iter().any(|c| c.local.len() > 1) {
        rep.probe("c10.linear_combination_column");
    }
    {
        let mut t: Vec<u64> = inst.rows.iter().map(|r| r[l.table]).collect();
        t.sort();
        t.dedup();
        if t.len() < n {
            rep.probe("c10.table_with_repeated_values");
        }
    }
    case.sched.arm();
    let proof = stark_prove::<C, COLS, PIS>(def, &cfg, &inst.rows, &inst.pis);
    rep.absorb_seams();
    rep.case(base_sig, true);
    let proof = match proof {
        Ok(p) => p,
        Err(e) => return viol(rep, case, None, "honest", "honest_lookup_stark_prove_failed", e),
    };
    if let Err(e) = stark_verify::<C, COLS, PIS>(def, &cfg, &proof) {
        return viol(rep, case, None, "honest", "honest_lookup_stark_proof_rejected", e);
    }
    // ---- single-value faults on looking side, looked side, frequencies, filters
    let mut r = Rng::new(case.fault_seed);
    let mut plan: Vec<(usize, usize, u64, String)> = Vec::new();
    if let Some((row, col, v)) = case.only {
        plan.push((row, col, v, "replay".into()));
    } else {
        let tv = |r: &mut Rng| inst.rows[r.usize(n)][l.table];
        for cs in &l.looking {
            let c = cs.local.first().or(cs.next.first()).unwrap().0;
            for _ in 0..3 {
                let row = r.usize(n);
                plan.push((row, c, rm::add(inst.rows[row][c], 1), "looking.altered".into()));
                plan.push((row, c, r.felt(), "looking.random".into()));
            }
            // another value of the table: present, but the frequencies no longer match
            let row = r.usize(n);
            let other = tv(&mut r);
            if let Some((cc, a)) = cs.local.first() {
                if cs.local.len() == 1 && cs.next.is_empty() {
                    plan.push((row, *cc, rm::mul(rm::sub(other, cs.constant), rm::inv(*a)), "looking.other_table_value".into()));
                }
            }
        }
        for _ in 0..3 {
            let row = r.usize(n);
            plan.push((row, l.table, rm::add(inst.rows[row][l.table], 1), "looked.altered".into()));
            plan.push((row, l.freq, rm::add(inst.rows[row][l.freq], 1), "frequency.plus1".into()));
            plan.push((row, l.freq, 0, "frequency.zero".into()));
        }
        plan.push((0, l.table, r.felt(), "looked.random_first_row".into()));
        plan.push((n - 1, l.table, r.felt(), "looked.random_last_row".into()));
        for f in l.filters.iter().flatten() {
            let row = r.usize(n);
            plan.push((row, *f, 1 - inst.rows[row][*f].min(1), "filter.flipped".into()));
        }
    }
    for (row, col, nv, role) in &plan {
        if inst.rows[*row][*col] == *nv {
            continue;
        }
        let mut rows = inst.rows.clone();
        rows[*row][*col] = *nv;
        let violated = refcheck(&rows);
        rep.fault(role);
        rep.case(base_sig ^ hash_value(&json!([row, col, nv])), violated.is_some());
        case.sched.arm();
        let p = stark_prove::<C, COLS, PIS>(def, &cfg, &rows, &inst.pis);
        let accepted = match &p {
            Ok(p) => stark_verify::<C, COLS, PIS>(def, &cfg, p).is_ok(),
            Err(_) => false,
        };
        if violated.is_some() && role.starts_with("looking") && case.only.is_none() || violated.is_some() && role == "replay" {
            // the same fault through a prover whose helper columns are stale (computed from the valid trace)
            rep.fault(&format!("{role}+stale_helper_columns"));
            rep.case(base_sig ^ hash_value(&json!(["stale", row, col, nv])), true);
            case.sched.arm();
            if let Ok(p2) = crate::c09::stark_prove_mismatch::<C, COLS, PIS>(def, &cfg, &inst.rows, &rows, &inst.pis) {
                if stark_verify::<C, COLS, PIS>(def, &cfg, &p2).is_ok() {
                    viol(rep, case, Some((*row, *col, *nv)), role, "accepted_lookup_proof_with_stale_helper_columns", format!("row {row} col {col}: {}", violated.clone().unwrap()));
                }
            }
        }
        if violated.is_some() && accepted {
            viol(rep, case, Some((*row, *col, *nv)), role, "accepted_lookup_proof_with_missing_or_extra_value", format!("row {row} col {col}: {}", violated.unwrap()));
        } else if violated.is_none() && !accepted {
            viol(rep, case, Some((*row, *col, *nv)), role, "satisfying_lookup_trace_not_accepted", format!("row {row} col {col}: {}", p.err().unwrap_or("verifier rejected".into())));
        } else if violated.is_none() {
            rep.probe("c10.change_kept_multiset_equal_and_accepted");
        }
    }
    rep.sample(json!({"shape": [COLS, PIS], "rows": n, "lookup": l, "degree": def.degree, "config": scfg.class(), "faults": plan.len()}));
}

fn exec_h<const COLS: usize, const PIS: usize>(case: &Case, rep: &mut Report) {
    if case.cfg.hash == "keccak" {
        exec_s::<KC, COLS, PIS>(case, rep)
    } else {
        exec_s::<PC, COLS, PIS>(case, rep)
    }
}

pub fn exec(case: &Value, rep: &mut Report) {
    if let Some(c) = case.get("ctl") {
        return crate::ctl::exec(c, rep);
    }
    let case: Case = serde_json::from_value(case.clone()).expect("malformed C10 case");
    with_stark!(case.inst.def, exec_h, &case, rep)
}

pub fn shrink(case: &Value) -> Vec<Value> {
    if case.get("ctl").is_some() {
        return vec![];
    }
    let c: Case = serde_json::from_value(case.clone()).unwrap();
    let mut out = Vec::new();
    if c.sched.workers > 1 {
        let mut d = c.clone();
        d.sched = Sched::sequential();
        out.push(d);
    }
    if c.cfg.hash == "keccak" {
        let mut d = c.clone();
        d.cfg.hash = "poseidon".into();
        out.push(d);
    }
    if c.cfg.num_challenges > 1 {
        let mut d = c.clone();
        d.cfg.num_challenges = 1;
        out.push(d);
    }
    out.into_iter().map(|d| serde_json::to_value(d).unwrap()).collect()
}
