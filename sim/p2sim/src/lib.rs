//! p2sim — deterministic simulation with fault injection for plonky2 / starky (see /verif/DESIGN.md).
pub mod core;
pub mod c01;
pub mod c02;
pub mod c03;
pub mod sat;
pub mod c04;
pub mod c05;
pub mod c06;
pub mod c07;
pub mod c08;
pub mod c09;
pub mod c10;
pub mod c11;
pub mod ctl;
pub mod c12;
pub mod stark;
pub mod c16;
pub mod c17;
pub mod c18;
pub mod c19;
pub mod alloc_watch;
pub mod c20;
pub mod mutate;
pub mod pipeline;
pub mod prog;
pub mod refmath;

use crate::core::{Report, Rng, Tier};
use serde_json::Value;

pub struct Property {
    pub id: &'static str,
    /// Draw one scenario from the run's PRNG.
    pub gen: fn(&mut Rng, Tier) -> Value,
    /// Execute a scenario (pure function of the scenario and the code).
    pub exec: fn(&Value, &mut Report),
    /// Simpler variants of a violating scenario, most aggressive first.
    pub shrink: fn(&Value) -> Vec<Value>,
    /// Default number of runs per tier.
    pub runs: (u64, u64),
}

pub fn registry() -> Vec<Property> {
    vec![
        Property { id: "C01", gen: c01::gen, exec: c01::exec, shrink: c01::shrink, runs: (1500, 40000) },
        Property { id: "C02", gen: c02::gen, exec: c02::exec, shrink: c02::shrink, runs: (300, 5000) },
        Property { id: "C03", gen: c03::gen, exec: c03::exec, shrink: c03::shrink, runs: (60, 900) },
        Property { id: "C04", gen: c04::gen, exec: c04::exec, shrink: c04::shrink, runs: (160, 2500) },
        Property { id: "C05", gen: c05::gen, exec: c05::exec, shrink: c05::shrink, runs: (300, 6000) },
        Property { id: "C06", gen: c06::gen, exec: c06::exec, shrink: c06::shrink, runs: (48, 1200) },
        Property { id: "C07", gen: c07::gen, exec: c07::exec, shrink: c07::shrink, runs: (600, 12000) },
        Property { id: "C08", gen: c08::gen, exec: c08::exec, shrink: c08::shrink, runs: (120, 4000) },
        Property { id: "C09", gen: c09::gen, exec: c09::exec, shrink: c09::shrink, runs: (1000, 20000) },
        Property { id: "C10", gen: c10::gen, exec: c10::exec, shrink: c10::shrink, runs: (300, 6000) },
        Property { id: "C11", gen: c11::gen, exec: c11::exec, shrink: c11::shrink, runs: (48, 1200) },
        Property { id: "C12", gen: c12::gen, exec: c12::exec, shrink: c12::shrink, runs: (3000, 60000) },
        Property { id: "C16", gen: c16::gen, exec: c16::exec, shrink: c16::shrink, runs: (400, 8000) },
        Property { id: "C17", gen: c17::gen, exec: c17::exec, shrink: c17::shrink, runs: (240, 5000) },
        Property { id: "C18", gen: c18::gen, exec: c18::exec, shrink: c18::shrink, runs: (48, 1500) },
        Property { id: "C19", gen: c19::gen, exec: c19::exec, shrink: c19::shrink, runs: (40, 600) },
        Property { id: "C20", gen: c20::gen, exec: c20::exec, shrink: c20::shrink, runs: (36, 600) },
    ]
}
