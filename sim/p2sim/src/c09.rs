//! C09 — STARK proofs are accepted exactly for traces that satisfy the constraints.
use plonky2::fri::reduction_strategies::FriReductionStrategy;
use plonky2::fri::FriConfig;
use plonky2::plonk::config::GenericConfig;
use plonky2::util::timing::TimingTree;
use serde::{Deserialize, Serialize};
use serde_json::{json, Value};
use starky::config::StarkConfig;
use starky::proof::StarkProofWithPublicInputs;
use starky::prover::prove;
use starky::verifier::verify_stark_proof;

use crate::c03::plan;
use crate::core::*;
use crate::mutate::*;
use crate::pipeline::{Strat, KC, PC};
use crate::prog::*;
use crate::stark::*;
use crate::with_stark;

#[derive(Clone, Debug, PartialEq, Serialize, Deserialize)]
pub struct SCfg {
    pub security_bits: usize,
    pub num_challenges: usize,
    pub rate_bits: usize,
    pub cap_height: usize,
    pub pow_bits: u32,
    pub strategy: Strat,
    pub num_queries: usize,
    pub hash: String,
}

impl SCfg {
    pub fn draw(r: &mut Rng, log_n: usize, degree: usize, recursion_friendly: bool) -> SCfg {
        let need = if degree > 2 { plonky2::util::log2_ceil(degree - 1) } else { 0 };
        let rate_bits = r.range(need.max(1), 3.max(need));
        let lde = log_n + rate_bits;
        let num_queries = (64 + lde - 1) / lde + r.range(0, 4);
        let strategy = if recursion_friendly {
            Strat::ConstantArityBits(r.range(1, 3), r.range(0, 2))
        } else {
            match r.below(4) {
                0 => Strat::Fixed((0..r.range(0, 3)).map(|_| r.range(1, 2)).collect()),
                1 => Strat::MinSize(if r.chance(1, 2) { None } else { Some(r.range(1, 3)) }),
                _ => Strat::ConstantArityBits(r.range(1, 3), r.range(0, 3)),
            }
        };
        let pow_bits = *r.pick(&[0u32, 0, 2, 5, 8]);
        let have = (num_queries * rate_bits + pow_bits as usize).min(128);
        SCfg {
            security_bits: r.range(0, have),
            num_challenges: r.range(1, 3),
            rate_bits,
            cap_height: r.range(0, 3),
            pow_bits,
            strategy,
            num_queries,
            hash: if !recursion_friendly && r.chance(1, 4) { "keccak".into() } else { "poseidon".into() },
        }
    }
    pub fn to_config(&self) -> StarkConfig {
        StarkConfig::new(
            self.security_bits,
            self.num_challenges,
            FriConfig {
                rate_bits: self.rate_bits,
                cap_height: self.cap_height,
                proof_of_work_bits: self.pow_bits,
                reduction_strategy: match &self.strategy {
                    Strat::Fixed(v) => FriReductionStrategy::Fixed(v.clone()),
                    Strat::ConstantArityBits(a, b) => FriReductionStrategy::ConstantArityBits(*a, *b),
                    Strat::MinSize(m) => FriReductionStrategy::MinSize(*m),
                },
                num_query_rounds: self.num_queries,
            },
        )
    }
    /// Adjust to the documented admissibility predicates for a trace of 2^log_n rows.
    pub fn admissible(&self, log_n: usize) -> Option<SCfg> {
        let mut c = self.clone();
        for _ in 0..12 {
            let p = guarded(|| c.to_config().fri_params(log_n)).ok();
            match p {
                Some(p) if p.total_arities() <= log_n && p.total_arities() + c.cap_height <= log_n + c.rate_bits => return Some(c),
                _ => match &mut c.strategy {
                    Strat::Fixed(v) if !v.is_empty() => {
                        v.pop();
                    }
                    Strat::ConstantArityBits(a, _) if *a > 1 => *a -= 1,
                    _ if c.cap_height > 0 => c.cap_height -= 1,
                    _ => return None,
                },
            }
        }
        None
    }
    pub fn class(&self) -> String {
        format!("ch{} r{} cap{} pow{} {:?} q{} {}", self.num_challenges, self.rate_bits, self.cap_height, self.pow_bits, self.strategy, self.num_queries, self.hash)
    }
}

#[derive(Clone, Debug, PartialEq, Serialize, Deserialize)]
pub enum SFault {
    /// hand-written prover: violating trace (row, col, new value), "quotient" chosen after zeta, no quotient cap
    ForgedNoQuotientCap(usize, usize, u64),
    /// strategy: quotient cap of identically-zero polynomials, opening set without quotient openings
    ForgedNoQuotientOpenings(usize, usize, u64),
    /// strategy: transcript-order attack - the forger draws zeta before committing to (and absorbing) the quotient
    ForgedZetaBeforeQuotient(usize, usize, u64),
    /// (row, col, new value)
    TraceCell(usize, usize, u64),
    /// prover proves with this public input changed: (index, new value)
    ProverPi(usize, u64),
    /// message fault on the proof tree
    Message(Fault),
}

#[derive(Clone, Debug, Serialize, Deserialize)]
pub struct Case {
    pub inst: Instance,
    pub cfg: SCfg,
    pub sched: Sched,
    pub fault_seed: u64,
    #[serde(default)]
    pub only: Option<SFault>,
}

pub fn gen(rng: &mut Rng, tier: Tier) -> Value {
    let mut r = rng.sub("c09");
    let log_n = if tier == Tier::Quick { r.range(2, 7) } else { r.range(2, 10) };
    let inst = gen_instance(&mut r, log_n, 4, true);
    let cfg = SCfg::draw(&mut r, log_n, inst.def.degree, false);
    let mut rs = rng.sub("schedule");
    serde_json::to_value(Case { inst, cfg, sched: Sched::draw(&mut rs), fault_seed: r.u64(), only: None }).unwrap()
}

fn viol(rep: &mut Report, case: &Case, f: Option<&SFault>, oracle: &str, detail: String) {
    let mut c = case.clone();
    c.only = f.cloned();
    let kind = match f {
        Some(SFault::TraceCell(..)) => "trace_cell".to_string(),
        Some(SFault::ProverPi(..)) => "prover_pi".to_string(),
        Some(SFault::ForgedNoQuotientCap(..)) => "forged_missing_quotient_cap".to_string(),
        Some(SFault::ForgedNoQuotientOpenings(..)) => "forged_missing_quotient_openings".to_string(),
        Some(SFault::ForgedZetaBeforeQuotient(..)) => "forged_zeta_before_quotient".to_string(),
        Some(SFault::Message(m)) => format!("message.{}.{}", m.kind(), component(m.path())),
        None => "honest".to_string(),
    };
    rep.violation("C09", oracle, &format!("C09|{oracle}|{kind}"), detail, serde_json::to_value(&c).unwrap());
}

pub fn stark_prove<C: GenericConfig<D, F = F>, const COLS: usize, const PIS: usize>(
    def: &Def,
    cfg: &StarkConfig,
    rows: &[Vec<u64>],
    pis: &[u64],
) -> Result<StarkProofWithPublicInputs<F, C, D>, String> {
    let stark = SimStark::<COLS, PIS>::new(def.clone());
    let trace = rows_to_polys(rows, COLS);
    let pv = felts(pis);
    match guarded(|| prove::<F, C, _, D>(stark, cfg, trace, &pv, None, &mut TimingTree::default())) {
        Ok(Ok(p)) => Ok(p),
        Ok(Err(e)) => Err(format!("Err: {e}")),
        Err(e) => Err(format!("panic: {e}")),
    }
}

pub fn stark_verify<C: GenericConfig<D, F = F>, const COLS: usize, const PIS: usize>(def: &Def, cfg: &StarkConfig, p: &StarkProofWithPublicInputs<F, C, D>) -> Result<(), String> {
    let stark = SimStark::<COLS, PIS>::new(def.clone());
    match guarded(|| verify_stark_proof::<F, C, _, D>(stark, p.clone(), cfg, None)) {
        Ok(Ok(())) => Ok(()),
        Ok(Err(e)) => Err(format!("Err: {e}")),
        Err(e) => Err(format!("panic: {e}")),
    }
}

fn exec_s<C: GenericConfig<D, F = F>, const COLS: usize, const PIS: usize>(case: &Case, rep: &mut Report) {
    let inst = &case.inst;
    let def = &inst.def;
    let n = inst.rows.len();
    let scfg = match case.cfg.admissible(inst.log_n) {
        Some(c) => c,
        None => {
            rep.skip("no admissible FRI parameters for this trace length");
            return;
        }
    };
    let cfg = scfg.to_config();
    let base_sig = hash_value(&json!([def, inst.log_n, inst.pis])) ^ hash_str(&scfg.class()) ^ fnv(&inst.rows.iter().flat_map(|r| r.iter().flat_map(|x| x.to_le_bytes())).collect::<Vec<u8>>());
    if def.check(&inst.rows, &inst.pis).is_some() {
        rep.skip("harness: generated trace does not satisfy its definition");
        return;
    }
    rep.probe(&format!("c09.degree.{}", def.degree));
    rep.probe(&format!("c09.shape.{}x{}", COLS, PIS));
    if def.constraints.is_empty() {
        rep.probe("c09.no_constraints_no_quotient");
    }
    for k in [Kind::First, Kind::Last, Kind::Transition, Kind::All] {
        if def.constraints.iter().any(|c| c.kind == k) {
            rep.probe(&format!("c09.kind.{:?}", k));
        }
    }
    // ---- honest
    case.sched.arm();
    let proof = stark_prove::<C, COLS, PIS>(def, &cfg, &inst.rows, &inst.pis);
    rep.absorb_seams();
    rep.case(base_sig, true);
    let proof = match proof {
        Ok(p) => p,
        Err(e) => return viol(rep, case, None, "honest_stark_prove_failed", e),
    };
    if let Err(e) = stark_verify::<C, COLS, PIS>(def, &cfg, &proof) {
        return viol(rep, case, None, "honest_stark_proof_rejected", e);
    }
    if canon(&proof.public_inputs) != inst.pis {
        return viol(rep, case, None, "stark_public_inputs_changed", String::new());
    }
    let r3 = scfg.num_queries * (inst.log_n + scfg.rate_bits) >= 64;
    let mut r = Rng::new(case.fault_seed);
    // ---- fault plan
    let mut plan_f: Vec<SFault> = Vec::new();
    if let Some(f) = &case.only {
        plan_f.push(f.clone());
    } else {
        for row in [0, 1, n / 2, n - 2, n - 1] {
            for _ in 0..2 {
                let col = r.usize(COLS);
                let old = inst.rows[row][col];
                let nv = match r.below(3) {
                    0 => (old + 1) % P,
                    1 => r.felt(),
                    _ => 0,
                };
                if nv != old {
                    plan_f.push(SFault::TraceCell(row, col, nv));
                }
            }
        }
        for k in 0..PIS {
            plan_f.push(SFault::ProverPi(k, (inst.pis[k] + 1) % P));
        }
        if def.lookups.is_empty() && !def.constraints.is_empty() && n >= 4 {
            let (row, col) = (r.usize(n), r.usize(COLS));
            plan_f.push(SFault::ForgedNoQuotientCap(row, col, (inst.rows[row][col] + 1) % P));
            plan_f.push(SFault::ForgedNoQuotientOpenings(row, col, (inst.rows[row][col] + 1) % P));
            plan_f.push(SFault::ForgedZetaBeforeQuotient(row, col, (inst.rows[row][col] + 1) % P));
        }
        // a trace whose columns are all constant gives a challenge-independent proof (all openings fit any
        // zeta and any query set): the R3 argument does not apply, a cap entry no new query lands on is legitimately unbound
        let degenerate = inst.rows.iter().all(|row| row == &inst.rows[0]);
        if degenerate {
            rep.probe("c09.constant_trace_message_faults_skipped");
        }
        if r3 && !degenerate {
            let tree = serde_json::to_value(&proof).unwrap();
            for f in plan(&tree, &mut r, false, false) {
                // keep the message-fault budget small: one in three planned faults
                if r.chance(1, 3) || matches!(&f, Fault::List { .. }) && r.chance(1, 2) {
                    plan_f.push(SFault::Message(f));
                }
            }
        }
    }
    let tree = serde_json::to_value(&proof).unwrap();
    for f in &plan_f {
        let sig = base_sig ^ hash_value(&serde_json::to_value(f).unwrap());
        match f {
            SFault::TraceCell(row, col, nv) => {
                let mut rows = inst.rows.clone();
                rows[*row][*col] = *nv;
                let violated = def.check(&rows, &inst.pis);
                rep.fault(&format!("trace_cell.row_{}", if *row == 0 { "first" } else if *row == n - 1 { "last(wrap)" } else if *row == n - 2 { "last_transition" } else if *row == 1 { "second" } else { "interior" }));
                rep.case(sig, violated.is_some());
                case.sched.arm();
                let p = stark_prove::<C, COLS, PIS>(def, &cfg, &rows, &inst.pis);
                let accepted = match &p {
                    Ok(p) => stark_verify::<C, COLS, PIS>(def, &cfg, p).is_ok(),
                    Err(_) => false,
                };
                if violated.is_some() && accepted {
                    viol(rep, case, Some(f), "accepted_proof_for_violating_trace", format!("row {row} col {col}: constraint {:?}", violated));
                } else if violated.is_none() && !accepted {
                    viol(rep, case, Some(f), "satisfying_trace_not_accepted", format!("row {row} col {col} is unconstrained, yet: {}", p.err().unwrap_or("verifier rejected".into())));
                } else if violated.is_none() {
                    rep.probe("c09.unconstrained_cell_changed_and_accepted");
                }
            }
            SFault::ForgedZetaBeforeQuotient(row, col, nv) => {
                let mut rows = inst.rows.clone();
                rows[*row][*col] = *nv;
                let violated = def.check(&rows, &inst.pis);
                if violated.is_none() {
                    rep.case(sig, false);
                    continue;
                }
                rep.fault("strategy.forged_zeta_before_quotient");
                rep.case(sig, true);
                case.sched.arm();
                match forge_without_quotient::<C, COLS, PIS>(def, &cfg, &rows, &inst.pis, 2) {
                    Ok(p) => {
                        if stark_verify::<C, COLS, PIS>(def, &cfg, &p).is_ok() {
                            viol(rep, case, Some(f), "accepted_forged_proof_with_quotient_chosen_after_zeta", format!("violating trace (row {row} col {col}, constraint {:?}); the forger drew zeta before absorbing the quotient cap", violated));
                        }
                    }
                    Err(_) => rep.probe("c09.forger_not_applicable"),
                }
            }
            SFault::ForgedNoQuotientOpenings(row, col, nv) => {
                let mut rows = inst.rows.clone();
                rows[*row][*col] = *nv;
                let violated = def.check(&rows, &inst.pis);
                if violated.is_none() {
                    rep.case(sig, false);
                    continue;
                }
                rep.fault("strategy.forged_missing_quotient_openings");
                rep.case(sig, true);
                case.sched.arm();
                match forge_without_quotient::<C, COLS, PIS>(def, &cfg, &rows, &inst.pis, 1) {
                    Ok(p) => {
                        if stark_verify::<C, COLS, PIS>(def, &cfg, &p).is_ok() {
                            viol(rep, case, Some(f), "accepted_forged_proof_without_quotient_openings", format!("violating trace (row {row} col {col}, constraint {:?}); the opening set carries no quotient openings", violated));
                        }
                    }
                    Err(_) => rep.probe("c09.forger_not_applicable"),
                }
            }
            SFault::ForgedNoQuotientCap(row, col, nv) => {
                let mut rows = inst.rows.clone();
                rows[*row][*col] = *nv;
                let violated = def.check(&rows, &inst.pis);
                if violated.is_none() {
                    rep.case(sig, false);
                    continue;
                }
                rep.fault("strategy.forged_missing_quotient_cap");
                rep.case(sig, true);
                case.sched.arm();
                match forge_without_quotient::<C, COLS, PIS>(def, &cfg, &rows, &inst.pis, 0) {
                    Ok(p) => {
                        if stark_verify::<C, COLS, PIS>(def, &cfg, &p).is_ok() {
                            viol(rep, case, Some(f), "accepted_forged_proof_without_quotient_cap", format!("violating trace (row {row} col {col}, constraint {:?}); the proof carries no quotient cap", violated));
                        }
                    }
                    Err(_) => rep.probe("c09.forger_not_applicable"),
                }
            }
            SFault::ProverPi(k, nv) => {
                let mut pis = inst.pis.clone();
                pis[*k] = *nv;
                let violated = def.check(&inst.rows, &pis);
                rep.fault("prover_public_input_mismatch");
                rep.case(sig, violated.is_some());
                case.sched.arm();
                let accepted = match stark_prove::<C, COLS, PIS>(def, &cfg, &inst.rows, &pis) {
                    Ok(p) => stark_verify::<C, COLS, PIS>(def, &cfg, &p).is_ok(),
                    Err(_) => false,
                };
                if violated.is_some() && accepted {
                    viol(rep, case, Some(f), "accepted_proof_for_mismatching_public_inputs", format!("pi {k}"));
                } else if violated.is_none() && !accepted {
                    viol(rep, case, Some(f), "satisfying_trace_not_accepted", format!("public input {k} is unconstrained"));
                }
            }
            SFault::Message(m) => {
                let mut t = tree.clone();
                if !apply(&mut t, m) {
                    rep.case(sig, false);
                    continue;
                }
                if canonical(&t) == canonical(&tree) {
                    // same field elements in another representation (the prover may emit p for 0): not a change of value
                    rep.case(sig, false);
                    rep.probe("c09.fault_changed_encoding_only");
                    continue;
                }
                let p2: StarkProofWithPublicInputs<F, C, D> = match serde_json::from_value(t) {
                    Ok(p) => p,
                    Err(_) => {
                        rep.case(sig, false);
                        continue;
                    }
                };
                rep.fault(&format!("message.{}", m.kind()));
                rep.case(sig, true);
                match stark_verify::<C, COLS, PIS>(def, &cfg, &p2) {
                    Ok(()) => viol(rep, case, Some(f), "tampered_stark_proof_accepted", format!("{} at {}", m.kind(), path_str(m.path()))),
                    Err(e) if e.starts_with("panic") => rep.probe("c09.verifier_panicked (C18 observation)"),
                    Err(_) => {}
                }
            }
        }
    }
    rep.sample(json!({"shape": [COLS, PIS], "rows": n, "degree": def.degree, "constraints": def.constraints.len(), "config": scfg.class(), "faults": plan_f.len(),
        "example_constraint": def.constraints.first()}));
}

fn exec_h<const COLS: usize, const PIS: usize>(case: &Case, rep: &mut Report) {
    if case.cfg.hash == "keccak" {
        exec_s::<KC, COLS, PIS>(case, rep)
    } else {
        exec_s::<PC, COLS, PIS>(case, rep)
    }
}

pub fn exec(case: &Value, rep: &mut Report) {
    let case: Case = serde_json::from_value(case.clone()).expect("malformed C09 case");
    with_stark!(case.inst.def, exec_h, &case, rep)
}

pub fn shrink(case: &Value) -> Vec<Value> {
    let c: Case = serde_json::from_value(case.clone()).unwrap();
    let mut out = Vec::new();
    if c.sched.workers > 1 {
        let mut d = c.clone();
        d.sched = Sched::sequential();
        out.push(d);
    }
    // drop constraints one by one (the trace keeps satisfying the rest)
    for k in 0..c.inst.def.constraints.len() {
        let mut d = c.clone();
        d.inst.def.constraints.remove(k);
        if d.inst.def.max_term_degree() >= 1 || d.inst.def.constraints.is_empty() {
            if d.inst.def.constraints.is_empty() {
                d.inst.def.degree = 0;
            }
            out.push(d);
        }
    }
    if c.cfg.hash == "keccak" {
        let mut d = c.clone();
        d.cfg.hash = "poseidon".into();
        out.push(d);
    }
    if c.cfg.num_challenges > 1 {
        let mut d = c.clone();
        d.cfg.num_challenges = 1;
        out.push(d);
    }
    if c.cfg.cap_height > 0 {
        let mut d = c.clone();
        d.cfg.cap_height = 0;
        out.push(d);
    }
    if c.cfg.pow_bits > 0 {
        let mut d = c.clone();
        d.cfg.pow_bits = 0;
        d.cfg.security_bits = 0;
        out.push(d);
    }
    out.into_iter().map(|d| serde_json::to_value(d).unwrap()).collect()
}

/// A hand-written Byzantine STARK prover (strategy "missing quotient cap"): commits to a VIOLATING
/// trace, replays the verifier's transcript, and only after seeing zeta chooses "quotient"
/// polynomials that make the identity hold at zeta; it sends no quotient cap, so those polynomials
/// are never bound to the transcript. A sound verifier must reject such a proof (definitions with
/// a quotient must carry a quotient cap).
///
/// Modes: 0 as above; 2 = transcript-order attack (zeta drawn first, the quotient committed and absorbed afterwards, cap sent).
/// With mode 1 the forger instead commits to identically-zero quotient polynomials (the
/// cap is sent and observed) and sends an opening set *without* quotient openings, so that a verifier
/// that does not insist on them has nothing to compare the vanishing polynomial with.
pub fn forge_without_quotient<C: GenericConfig<D, F = F>, const COLS: usize, const PIS: usize>(
    def: &Def,
    cfg: &StarkConfig,
    rows: &[Vec<u64>],
    pis: &[u64],
    mode: u8,
) -> Result<StarkProofWithPublicInputs<F, C, D>, String> {
    use core::cmp::{max, min};
    use plonky2::field::extension::FieldExtension;
    use plonky2::field::polynomial::PolynomialCoeffs;
    use plonky2::field::types::Field;
    use plonky2::fri::oracle::PolynomialBatch;
    use plonky2::iop::challenger::Challenger;
    use plonky2::util::{log2_ceil, log2_strict};
    use starky::constraint_consumer::ConstraintConsumer;
    use starky::evaluation_frame::{StarkEvaluationFrame, StarkFrame};
    use starky::proof::{StarkOpeningSet, StarkProof};
    use starky::stark::Stark;
    if !def.lookups.is_empty() || def.constraints.is_empty() {
        return Err("strategy applies to definitions with a quotient and without auxiliary polynomials".into());
    }
    guarded(|| {
        let stark = SimStark::<COLS, PIS>::new(def.clone());
        let ext = |x: F| <FE as FieldExtension<D>>::from_basefield(x);
        let trace = rows_to_polys(rows, COLS);
        let public_inputs = felts(pis);
        let degree = trace[0].len();
        let degree_bits = log2_strict(degree);
        let fri_params = cfg.fri_params(degree_bits);
        let (rate_bits, cap_height) = (cfg.fri_config.rate_bits, cfg.fri_config.cap_height);
        let g = F::primitive_root_of_unity(degree_bits);
        let mut timing = TimingTree::default();
        let trace_commitment = PolynomialBatch::<F, C, D>::from_values(trace, rate_bits, false, cap_height, &mut timing, None);
        let trace_cap = trace_commitment.merkle_tree.cap.clone();
        let mut challenger = Challenger::<F, C::Hasher>::new();
        challenger.observe_elements(&public_inputs);
        cfg.observe(&mut challenger);
        challenger.observe_cap(&trace_cap);
        // the constraint-binding step of the transcript
        let alphas_prime = challenger.get_n_challenges(cfg.num_challenges);
        let pow_degree = max(2, Stark::<F, D>::constraint_degree(&stark) + 1);
        let num_extension_powers = max(1, 50 / log2_ceil(pow_degree) - 1);
        let total_dummy = 2 * COLS;
        let simulating_zetas = challenger.get_n_extension_challenges::<D>(total_dummy.div_ceil(num_extension_powers));
        let per_zeta = min(num_extension_powers + 1, total_dummy);
        let dummy: Vec<FE> = simulating_zetas.iter().flat_map(|&z| core::iter::successors(Some(z), move |prev: &FE| Some(prev.exp_u64(pow_degree as u64))).take(per_zeta)).collect();
        let zeta_prime = challenger.get_extension_challenge::<D>();
        let n_ext = FE::from_canonical_usize(degree);
        let g_ext = ext(g);
        let pis_ext: Vec<FE> = public_inputs.iter().map(|&p| ext(p)).collect();
        let eval_at = |point: FE, alphas: &[F], local: &[FE], next: &[FE]| -> (Vec<FE>, FE) {
            let z_h = point.exp_power_of_2(degree_bits) - FE::ONE;
            let l_0 = z_h / (n_ext * (point - FE::ONE));
            let l_last = z_h / (n_ext * (g_ext * point - FE::ONE));
            let z_last = point - ext(g.inverse());
            let mut consumer = ConstraintConsumer::<FE>::new(alphas.iter().map(|&a| ext(a)).collect(), z_last, l_0, l_last);
            let vars = StarkFrame::<FE, FE, COLS, PIS>::from_values(local, next, &pis_ext);
            stark.eval_ext(&vars, &mut consumer);
            (consumer.accumulators(), z_h)
        };
        let (bound, _) = eval_at(zeta_prime, &alphas_prime, &dummy[..COLS], &dummy[COLS..2 * COLS]);
        challenger.observe_extension_elements::<D>(&bound);
        let alphas = challenger.get_n_challenges(cfg.num_challenges);
        if mode == 1 {
            let n_polys = stark.quotient_degree_factor() * cfg.num_challenges;
            let zero = PolynomialBatch::<F, C, D>::from_coeffs(vec![PolynomialCoeffs::new(vec![F::ZERO; degree]); n_polys], rate_bits, false, cap_height, &mut timing, None);
            challenger.observe_cap(&zero.merkle_tree.cap);
            let zeta = challenger.get_extension_challenge::<D>();
            let openings = StarkOpeningSet::<F, D>::new::<C>(zeta, g, &trace_commitment, None, None, 0, false, &[]);
            challenger.observe_extension_elements::<D>(&openings.local_values);
            challenger.observe_extension_elements::<D>(&openings.next_values);
            let opening_proof = PolynomialBatch::<F, C, D>::prove_openings(&stark.fri_instance(zeta, g, 0, vec![], cfg), &[&trace_commitment, &zero], &mut challenger, &fri_params, None, None, &mut timing);
            return StarkProofWithPublicInputs { proof: StarkProof { trace_cap, auxiliary_polys_cap: None, quotient_polys_cap: Some(zero.merkle_tree.cap.clone()), openings, opening_proof }, public_inputs };
        }
        // NO quotient cap is observed: zeta is known before the "quotient" is chosen
        let zeta = challenger.get_extension_challenge::<D>();
        let tr_open = StarkOpeningSet::<F, D>::new::<C>(zeta, g, &trace_commitment, None, None, 0, false, &[]);
        let (van, z_h) = eval_at(zeta, &alphas, &tr_open.local_values, &tr_open.next_values);
        let zc: [F; D] = <FE as FieldExtension<D>>::to_basefield_array(&zeta);
        let qdf = stark.quotient_degree_factor();
        let mut polys: Vec<PolynomialCoeffs<F>> = Vec::new();
        for &v in &van {
            // first chunk: a + b X with value v / Z_H(zeta) at zeta; the remaining chunks are zero
            let d: [F; D] = <FE as FieldExtension<D>>::to_basefield_array(&(v / z_h));
            let b = d[1] / zc[1];
            let a = d[0] - b * zc[0];
            let mut c = vec![F::ZERO; degree];
            c[0] = a;
            if degree > 1 {
                c[1] = b;
            }
            polys.push(PolynomialCoeffs::new(c));
            for _ in 1..qdf {
                polys.push(PolynomialCoeffs::new(vec![F::ZERO; degree]));
            }
        }
        let quotient_commitment = PolynomialBatch::<F, C, D>::from_coeffs(polys, rate_bits, false, cap_height, &mut timing, None);
        if mode == 2 {
            // transcript-order attack: the quotient is committed and absorbed only now, after zeta
            challenger.observe_cap(&quotient_commitment.merkle_tree.cap);
        }
        let openings = StarkOpeningSet::<F, D>::new::<C>(zeta, g, &trace_commitment, None, Some(&quotient_commitment), 0, false, &[]);
        // same order as the library's to_fri_openings: zeta batch (local, quotient), then the next-row batch
        challenger.observe_extension_elements::<D>(&openings.local_values);
        challenger.observe_extension_elements::<D>(openings.quotient_polys.as_ref().unwrap());
        challenger.observe_extension_elements::<D>(&openings.next_values);
        let opening_proof = PolynomialBatch::<F, C, D>::prove_openings(&stark.fri_instance(zeta, g, 0, vec![], cfg), &[&trace_commitment, &quotient_commitment], &mut challenger, &fri_params, None, None, &mut timing);
        let quotient_polys_cap = if mode == 2 { Some(quotient_commitment.merkle_tree.cap.clone()) } else { None };
        StarkProofWithPublicInputs { proof: StarkProof { trace_cap, auxiliary_polys_cap: None, quotient_polys_cap, openings, opening_proof }, public_inputs }
    })
}

/// Byzantine STARK prover, strategy "stale auxiliary columns": the auxiliary (lookup helper)
/// columns are computed from one trace while the commitment (and therefore every opening and the
/// quotient) is that of another — through the public `prove_with_commitment`.
pub fn stark_prove_mismatch<C: GenericConfig<D, F = F>, const COLS: usize, const PIS: usize>(
    def: &Def,
    cfg: &StarkConfig,
    rows_for_aux: &[Vec<u64>],
    rows_committed: &[Vec<u64>],
    pis: &[u64],
) -> Result<StarkProofWithPublicInputs<F, C, D>, String> {
    use plonky2::fri::oracle::PolynomialBatch;
    use plonky2::iop::challenger::Challenger;
    use starky::prover::prove_with_commitment;
    let r = guarded(|| {
        let stark = SimStark::<COLS, PIS>::new(def.clone());
        let pv = felts(pis);
        let committed = rows_to_polys(rows_committed, COLS);
        let commitment = PolynomialBatch::<F, C, D>::from_values(committed, cfg.fri_config.rate_bits, false, cfg.fri_config.cap_height, &mut TimingTree::default(), None);
        let mut challenger = Challenger::<F, C::Hasher>::new();
        challenger.observe_elements(&pv);
        cfg.observe(&mut challenger);
        challenger.observe_cap(&commitment.merkle_tree.cap);
        prove_with_commitment(&stark, cfg, &rows_to_polys(rows_for_aux, COLS), &commitment, None, None, &mut challenger, &pv, None, None, &mut TimingTree::default())
    });
    match r {
        Ok(Ok(p)) => Ok(p),
        Ok(Err(e)) => Err(format!("Err: {e}")),
        Err(e) => Err(format!("panic: {e}")),
    }
}
