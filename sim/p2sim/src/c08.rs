//! C08 — table lookups are provable exactly for pairs contained in the table.
//! Lookup-heavy workloads through the honest pipeline (fault-free oracle: proves, verifies, every
//! output is the table's value) and through the Byzantine prover of C02 with lookup faults.
use plonky2::iop::target::Target;
use plonky2::iop::wire::Wire;
use plonky2::gates::lookup::LookupGate;
use plonky2::gates::lookup_table::LookupTableGate;
use plonky2::plonk::config::GenericConfig;
use serde::{Deserialize, Serialize};
use serde_json::{json, Value};

use crate::c01::prog_shape;
use crate::c02::{run_fault, Knobs, PFault};
use crate::core::*;
use crate::pipeline::*;
use crate::prog::*;
use crate::sat::*;
use crate::with_config;

#[derive(Clone, Debug, Serialize, Deserialize)]
pub struct Case {
    pub st: Statement,
    pub sched: Sched,
    pub entropy: Entropy,
    pub fault_seed: u64,
    #[serde(default)]
    pub only: Option<PFault>,
}

pub fn gen(rng: &mut Rng, _tier: Tier) -> Value {
    let mut rc = rng.sub("config");
    let mut cfg = Cfg::draw(&mut rc, true, false);
    if cfg.zero_knowledge && !rc.chance(1, 3) {
        cfg.zero_knowledge = false;
    }
    cfg.rate_bits = 3;
    cfg.pow_bits = cfg.pow_bits.min(8);
    cfg.num_query_rounds = cfg.num_query_rounds.max(if cfg.zero_knowledge { 8 } else { 13 });
    cfg.security_bits = cfg.security_bits.min(cfg.num_query_rounds * cfg.rate_bits);
    let mut r = rng.sub("lookups");
    let lu_slots = cfg.num_routed_wires / 2;
    let lut_slots = cfg.num_routed_wires / 3;
    let nt = r.range(1, 4);
    let mut tables: Vec<Vec<(u16, u16)>> = Vec::new();
    let shared_inputs = r.chance(1, 2);
    let base_in = r.below(1 << 15) as u16;
    for _ in 0..nt {
        let size = match r.below(8) {
            0 => 1,
            1 => 2,
            2 => lut_slots - 1,
            3 => lut_slots,
            4 => lut_slots + 1,
            5 => 2 * lut_slots,
            6 => 2 * lut_slots + r.range(1, lut_slots),
            _ => r.range(1, 3 * lut_slots),
        };
        let b = if shared_inputs { base_in } else { r.below(1 << 15) as u16 };
        let stride = 1 + r.usize(3) as u16;
        let dup = r.chance(1, 3);
        let scattered = r.chance(1, 3);
        let mut t: Vec<(u16, u16)> = Vec::new();
        for i in 0..size {
            // inputs: an arithmetic progression, or scattered distinct 16-bit values
            let mut inp = b.wrapping_add(i as u16 * stride);
            if scattered {
                inp = r.below(1 << 16) as u16;
                while t.iter().any(|(a, _)| *a == inp) {
                    inp = inp.wrapping_add(1);
                }
            }
            let out = if dup && i > 0 && r.chance(1, 2) { t[r.usize(t.len())].1 } else { r.below(1 << 16) as u16 };
            t.push((inp, out));
        }
        // arbitrary order of the entries
        if r.chance(1, 2) {
            r.shuffle(&mut t);
        }
        // two different tables of which one is a proper prefix of the other
        if let Some(prev) = tables.last() {
            if prev.len() >= 2 && r.chance(1, 4) {
                if r.chance(1, 2) {
                    t = prev[..r.range(1, prev.len() - 1)].to_vec();
                } else {
                    let mut e = prev.clone();
                    for (a, bb) in t.iter() {
                        if !e.iter().any(|(x, _)| x == a) && e.len() < prev.len() + lut_slots {
                            e.push((*a, *bb));
                        }
                    }
                    if e.len() > prev.len() {
                        t = e;
                    }
                }
            }
        }
        tables.push(t);
    }
    // identical tables are merged by the builder: keep them pairwise different
    for i in 1..tables.len() {
        if tables[..i].iter().any(|t| *t == tables[i]) {
            let l = tables[i].len();
            tables[i][l - 1].1 ^= 1;
        }
    }
    // input 1 is an input of some table and is looked up directly (not through a constant)
    let via_t = r.usize(nt);
    let via_entry = tables[via_t][r.usize(tables[via_t].len())];
    let mut inputs = vec![Val::F(r.felt_biased()), Val::F(via_entry.0 as u64)];
    let mut prog = Program { inputs: inputs.clone(), ops: vec![], tables: tables.clone(), outputs: vec![] };
    let mut vals = inputs.clone();
    let mut push = |prog: &mut Program, vals: &mut Vec<Val>, op: Op| {
        prog.eval_op(&op, vals).expect("generated lookups are in their tables");
        prog.ops.push(op);
    };
    for t in 0..nt {
        let n = match r.below(7) {
            0 => 1,
            1 => lu_slots - 1,
            2 => lu_slots,
            3 => lu_slots + 1,
            4 => 2 * lu_slots,
            5 => 2 * lu_slots + r.range(1, lu_slots - 1),
            _ => r.range(1, 3 * lu_slots),
        };
        let heavy = r.chance(1, 3);
        let fav = tables[t][r.usize(tables[t].len())];
        for _ in 0..n {
            let e = if heavy && r.chance(3, 4) { fav } else { tables[t][r.usize(tables[t].len())] };
            push(&mut prog, &mut vals, Op::Const(e.0 as u64));
            let x = vals.len() - 1;
            push(&mut prog, &mut vals, Op::Lookup(t, x));
            if r.chance(1, 3) {
                prog.outputs.push(vals.len() - 1);
            }
        }
        prog.outputs.push(vals.len() - 1);
    }
    push(&mut prog, &mut vals, Op::Lookup(via_t, 1));
    prog.outputs.push(vals.len() - 1);
    if r.chance(1, 2) {
        let a = vals.len() - 1;
        push(&mut prog, &mut vals, Op::Add(a, 0));
        prog.outputs.push(vals.len() - 1);
    }
    inputs.clear();
    let mut rs = rng.sub("schedule");
    let mut re = rng.sub("entropy");
    serde_json::to_value(Case { st: Statement { prog, cfg }, sched: Sched::draw(&mut rs), entropy: Entropy::draw(&mut re), fault_seed: r.u64(), only: None }).unwrap()
}

fn viol(rep: &mut Report, case: &Case, f: &PFault, oracle: &str, what: &str, detail: String) {
    let mut c = case.clone();
    c.only = Some(f.clone());
    rep.violation("C08", oracle, &format!("C08|{oracle}|{}|{what}", f.kind()), detail, serde_json::to_value(&c).unwrap());
}

fn exec_c<C: GenericConfig<D, F = F>>(case: &Case, rep: &mut Report) {
    let mut built = match build::<C>(&case.st) {
        BuildOutcome::Ok(b) => b,
        BuildOutcome::Unsat(s) => {
            rep.skip(&format!("unsat:{s}"));
            return;
        }
        BuildOutcome::Panicked(e) => {
            rep.case(prog_shape(&case.st.prog), true);
            viol(rep, case, &PFault::default(), "build_panicked", "build", e);
            return;
        }
    };
    if built.cfg.num_query_rounds * built.lde_bits() < 64 {
        rep.skip("R3 floor: q*lde_bits < 64");
        return;
    }
    let data = &built.data;
    let common = &data.common;
    let (n, nw) = (common.degree(), common.config.num_wires);
    let ctx = SatCtx::new(data);
    let base_sig = prog_shape(&case.st.prog) ^ hash_str(&built.cfg.class()) ^ hash_value(&json!(case.st.prog.tables)) ^ hash_value(&json!(case.st.prog.ops.len()));
    let lu_slots = common.config.num_routed_wires / 2;
    let lut_slots = common.config.num_routed_wires / 3;
    // probes
    rep.probe(&format!("c08.tables.{}", case.st.prog.tables.len()));
    for (t, tab) in case.st.prog.tables.iter().enumerate() {
        let nl = case.st.prog.ops.iter().filter(|o| matches!(o, Op::Lookup(tt, _) if *tt == t)).count();
        if nl % lu_slots == 0 {
            rep.probe("c08.lookup_rows_exactly_full");
        } else {
            rep.probe("c08.partially_filled_lookup_row");
        }
        if tab.len() % lut_slots != 0 {
            rep.probe("c08.partially_filled_table_row");
        }
        if tab.len() > lut_slots {
            rep.probe("c08.table_spans_rows");
        }
        if tab.len() == 1 {
            rep.probe("c08.table_of_one_entry");
        }
        let used: std::collections::BTreeSet<u64> = case.st.prog.ops.iter().filter_map(|o| match o { Op::Const(c) => Some(*c), _ => None }).collect();
        if tab.iter().any(|(i, _)| !used.contains(&(*i as u64))) {
            rep.probe("c08.unused_table_entries");
        }
    }
    if data.prover_only.lookup_rows.len() != case.st.prog.tables.len() {
        rep.probe("c08.tables_merged_by_builder");
    }

    // ---- fault-free: provable, verifies, outputs are the table's values
    let honest = PFault::default();
    let expected = case.st.prog.expected_public(&case.st.prog.inputs).expect("generated satisfiable");
    rep.case(base_sig, true);
    let v0 = match run_fault(&built, &ctx, &case.st, &case.sched, &case.entropy, &honest) {
        Some(v) => v,
        None => return,
    };
    rep.absorb_seams();
    if !v0.sat.ok() {
        return viol(rep, case, &honest, "honest_lookup_witness_violates_statement_checker", v0.sat.kind(), format!("{:?}", v0.sat));
    }
    if !v0.accepted {
        return viol(rep, case, &honest, "honest_lookup_proof_not_accepted", "honest", v0.prover.clone());
    }
    if v0.pis != expected {
        return viol(rep, case, &honest, "lookup_outputs_differ_from_table", "honest", format!("{:?} vs {:?}", &v0.pis[..v0.pis.len().min(8)], &expected[..expected.len().min(8)]));
    }

    // ---- faults
    let mut r = Rng::new(case.fault_seed);
    let tidx = |row: usize, col: usize| Target::Wire(Wire { row, column: col }).index(nw, n);
    let mut plan: Vec<(String, PFault)> = Vec::new();
    if let Some(f) = &case.only {
        plan.push(("replay".into(), f.clone()));
    } else {
        for (t, lw) in data.prover_only.lookup_rows.iter().enumerate() {
            let tab = &common.luts[t];
            let nrows = lw.last_lut_gate - lw.last_lu_gate;
            if nrows == 0 {
                continue;
            }
            // used slots of this table: the first `nl` slots in row-major order from the last row down
            for _ in 0..3 {
                let row = lw.last_lu_gate + r.usize(nrows);
                let s = r.usize(lu_slots);
                plan.push(("lookup_pair.out+1".into(), PFault { cell: Some((tidx(row, LookupGate::wire_ith_looking_out(s)), "plus1".into(), 0)), ..Default::default() }));
                plan.push(("lookup_pair.inp+1".into(), PFault { cell: Some((tidx(row, LookupGate::wire_ith_looking_inp(s)), "plus1".into(), 0)), ..Default::default() }));
                plan.push(("lookup_pair.out_random".into(), PFault { cell: Some((tidx(row, LookupGate::wire_ith_looking_out(s)), "random".into(), r.below(1 << 16))), ..Default::default() }));
            }
            // an entry of a different table in this table's lookup row (cell "random" with a 16-bit seed is not
            // enough: use the exact other-table output through a dedicated kind)
            for e in 0..tab.len().min(3) {
                let row = lw.first_lut_gate - e / lut_slots;
                let s = e % lut_slots;
                plan.push(("lut_cell.out+1".into(), PFault { cell: Some((tidx(row, LookupTableGate::wire_ith_looked_out(s)), "plus1".into(), 0)), ..Default::default() }));
                plan.push(("lut_cell.inp+1".into(), PFault { cell: Some((tidx(row, LookupTableGate::wire_ith_looked_inp(s)), "plus1".into(), 0)), ..Default::default() }));
            }
        }
        // an entry of a *different* table for the same input, placed in this table's lookup row
        {
            use plonky2::field::types::PrimeField64;
            use plonky2::iop::witness::Witness;
            case.entropy.arm();
            if let Ok(hw) = crate::c02::sim_generate::<C>(built.honest_witness(&case.st), data, None, None).witness {
                for (t, lw) in data.prover_only.lookup_rows.iter().enumerate() {
                    let mut added = 0;
                    'rows: for row in lw.last_lu_gate..lw.last_lut_gate {
                        for s in 0..lu_slots {
                            let it = Target::Wire(Wire { row, column: LookupGate::wire_ith_looking_inp(s) });
                            let ot = Target::Wire(Wire { row, column: LookupGate::wire_ith_looking_out(s) });
                            if let (Some(i), Some(o)) = (hw.try_get_target(it), hw.try_get_target(ot)) {
                                let (i, o) = (i.to_canonical_u64(), o.to_canonical_u64());
                                for (t2, tab2) in common.luts.iter().enumerate() {
                                    if t2 == t {
                                        continue;
                                    }
                                    if let Some((_, o2)) = tab2.iter().find(|(a, b)| *a as u64 == i && *b as u64 != o) {
                                        if !common.luts[t].iter().any(|(a, b)| *a as u64 == i && *b == *o2) {
                                            plan.push(("lookup_other_table".into(), PFault { cell: Some((tidx(row, LookupGate::wire_ith_looking_out(s)), "set".into(), *o2 as u64)), ..Default::default() }));
                                            added += 1;
                                            if added >= 2 {
                                                break 'rows;
                                            }
                                        }
                                    }
                                }
                            }
                        }
                    }
                }
            }
        }
        // Byzantine strategy "row left out of the running sum": a wrong output in the first LookupGate row of a
        // table while the prover's own bookkeeping (prover_only.lookup_rows) says the lookup rows start one row later
        for (t, lw) in data.prover_only.lookup_rows.iter().enumerate() {
            if lw.last_lut_gate > lw.last_lu_gate {
                plan.push(("strategy.first_lookup_row_left_out_of_running_sum".into(), PFault { cell: Some((tidx(lw.last_lu_gate, LookupGate::wire_ith_looking_out(0)), "plus1".into(), 0)), shift_lookup_rows: Some(t), ..Default::default() }));
            }
        }
        // the honest prover on another assignment of the looked-up input: inputs that only another table holds, a value
        // no table holds, another entry of the same table (must then carry that entry's output)
        for op in &case.st.prog.ops {
            if let Op::Lookup(t, x) = op {
                if *x < case.st.prog.inputs.len() {
                    let mine = &case.st.prog.tables[*t];
                    let foreign: Vec<u64> = case.st.prog.tables.iter().enumerate().filter(|(k, _)| k != t).flat_map(|(_, tb)| tb.iter().map(|(a, _)| *a as u64)).filter(|a| !mine.iter().any(|(m, _)| *m as u64 == *a)).collect();
                    for v in foreign.iter().take(3) {
                        plan.push(("input.entry_of_another_table".into(), PFault { input: Some((*x, *v)), ..Default::default() }));
                    }
                    let mut v = r.below(1 << 16);
                    while mine.iter().any(|(m, _)| *m as u64 == v) {
                        v += 1;
                    }
                    plan.push(("input.outside_every_table".into(), PFault { input: Some((*x, v)), ..Default::default() }));
                    plan.push(("input.other_entry_of_the_table".into(), PFault { input: Some((*x, mine[r.usize(mine.len())].0 as u64)), ..Default::default() }));
                }
            }
        }
        if cfg!(feature = "hooks") {
            plan.push(("H1".into(), PFault { knobs: Knobs { z_init: Some(0), ..Default::default() }, ..Default::default() }));
            for j in 0..common.config.num_challenges {
                plan.push(("H2".into(), PFault { knobs: Knobs { quotient_delta: Some((j, r.usize(1 << 20), 1 + r.below(1 << 32))), ..Default::default() }, ..Default::default() }));
            }
        }
    }
    let degree_bits = common.degree_bits();
    for (name, f) in &plan {
        if let Some((i, nv)) = f.input {
            let sig = base_sig ^ hash_value(&serde_json::to_value(f).unwrap());
            match crate::c02::run_input_fault::<C>(&built, &ctx, &case.st, &case.sched, &case.entropy, i, nv) {
                crate::c02::InputVerdict::Skip => {}
                crate::c02::InputVerdict::Unsat { msg, accepted, sat } => {
                    rep.fault(name);
                    rep.case(sig, true);
                    if accepted {
                        viol(rep, case, f, "accepted_proof_for_a_lookup_outside_the_table", "reference", format!("input {i} := {nv}: the reference evaluator says '{msg}', the statement checker says {sat}"));
                    }
                }
                crate::c02::InputVerdict::Sat { differs, accepted } => {
                    rep.fault(name);
                    rep.case(sig, true);
                    if !accepted {
                        viol(rep, case, f, "lookup_of_a_table_entry_not_provable", "reference", format!("input {i} := {nv} is an input of the table"));
                    } else if differs {
                        viol(rep, case, f, "accepted_lookup_outputs_differ_from_table", "reference", format!("input {i} := {nv}"));
                    }
                }
            }
            continue;
        }
        let v = match f.shift_lookup_rows {
            None => run_fault(&built, &ctx, &case.st, &case.sched, &case.entropy, f),
            Some(t) => {
                // the statement checker judges the witness against the circuit as built; the prover then runs
                // with its bookkeeping shifted
                let plain = PFault { shift_lookup_rows: None, ..f.clone() };
                let sat = match run_fault(&built, &ctx, &case.st, &case.sched, &case.entropy, &plain) {
                    Some(v) => v.sat,
                    None => continue,
                };
                if t >= built.data.prover_only.lookup_rows.len() {
                    continue;
                }
                built.data.prover_only.lookup_rows[t].last_lu_gate += 1;
                let v = run_fault(&built, &ctx, &case.st, &case.sched, &case.entropy, &plain);
                built.data.prover_only.lookup_rows[t].last_lu_gate -= 1;
                v.map(|mut v| {
                    v.sat = sat;
                    v
                })
            }
        };
        let v = match v {
            Some(v) => v,
            None => continue,
        };
        let strategy = f.knobs.any();
        let must_reject = !v.sat.ok() || strategy;
        rep.fault(name);
        rep.case(base_sig ^ hash_value(&serde_json::to_value(f).unwrap()), must_reject);
        if !v.sat.ok() {
            rep.probe(&format!("c08.sat_violated.{}", v.sat.kind()));
        }
        if v.accepted && must_reject {
            viol(rep, case, f, "accepted_proof_with_pair_outside_table", if strategy { "strategy" } else { v.sat.kind() }, format!("{name}: {:?}; statement checker {:?}", f, v.sat));
        } else if v.accepted && v.pis != expected {
            viol(rep, case, f, "accepted_lookup_outputs_differ_from_table", "oracle_b", format!("{name}"));
        }
    }
    rep.sample(json!({"config": built.cfg.class(), "tables": case.st.prog.tables.iter().map(|t| t.len()).collect::<Vec<_>>(),
        "lookups": case.st.prog.ops.iter().filter(|o| matches!(o, Op::Lookup(..))).count(), "faults": plan.len(), "degree_bits": degree_bits}));
}

pub fn exec(case: &Value, rep: &mut Report) {
    let case: Case = serde_json::from_value(case.clone()).expect("malformed C08 case");
    with_config!(case.st.cfg.hash, exec_c, &case, rep)
}

pub fn shrink(case: &Value) -> Vec<Value> {
    let c: Case = serde_json::from_value(case.clone()).unwrap();
    let mut out = Vec::new();
    if c.sched.workers > 1 {
        let mut d = c.clone();
        d.sched = Sched::sequential();
        out.push(d);
    }
    if c.only.as_ref().map_or(true, |f| f.cell.is_none()) {
        for st in shrink_statement(&c.st) {
            if st.cfg.num_query_rounds < 8 {
                continue;
            }
            let mut d = c.clone();
            d.st = st;
            out.push(d);
        }
    }
    out.into_iter().map(|d| serde_json::to_value(d).unwrap()).collect()
}
