//! C19 — circuit keys and verdicts do not depend on schedule, hash seeds or SIMD build.
//! A node is a process of some build variant. In "local" mode a node builds the circuit under
//! several schedules, proves, and emits an artifact (key bytes, digests of deterministic
//! intermediates, proofs); in "foreign" mode a node consumes another node's artifact: it must
//! derive identical keys and digests and accept every foreign proof.
use plonky2::field::fft::fft_root_table;
use plonky2::field::polynomial::{PolynomialCoeffs, PolynomialValues};
use plonky2::field::types::Field;
use plonky2::hash::keccak::KeccakHash;
use plonky2::hash::merkle_tree::MerkleTree;
use plonky2::hash::poseidon::PoseidonHash;
use plonky2::plonk::config::{GenericConfig, GenericHashOut, Hasher};
use plonky2::plonk::proof::ProofWithPublicInputs;
use plonky2::util::serialization::DefaultGateSerializer;
use serde::{Deserialize, Serialize};
use serde_json::{json, Value};
use std::collections::BTreeMap;

use crate::c01::prog_shape;
use crate::core::*;
use crate::pipeline::*;
use crate::prog::*;
use crate::with_config;

#[derive(Clone, Debug, Serialize, Deserialize)]
pub struct Case {
    pub st: Statement,
    pub scheds: Vec<Sched>,
    pub entropy: Entropy,
    /// Some(..): consume this artifact produced by another node
    #[serde(default)]
    pub foreign: Option<Value>,
}

pub fn gen(rng: &mut Rng, tier: Tier) -> Value {
    let st = draw_statement_with(rng, 30, false, false, false);
    let mut rs = rng.sub("schedule");
    let k = if tier == Tier::Quick { 3 } else { 8 };
    let mut scheds = vec![Sched::sequential()];
    for _ in 1..k {
        scheds.push(Sched::draw(&mut rs));
    }
    let mut re = rng.sub("entropy");
    let mut e = Entropy::draw(&mut re);
    e.mode = "stream".into();
    serde_json::to_value(Case { st, scheds, entropy: e, foreign: None }).unwrap()
}

fn h64(b: &[u8]) -> String {
    // two independent 64-bit digests, hex
    let a = fnv(b);
    let mut x = a ^ 0x5555_5555_5555_5555;
    for c in b.chunks(8) {
        let mut w = [0u8; 8];
        w[..c.len()].copy_from_slice(c);
        x = x.rotate_left(13) ^ u64::from_le_bytes(w);
        x = splitmix(&mut x.clone());
    }
    format!("{:016x}{:016x}", a, x)
}

fn felts_bytes(v: &[F]) -> Vec<u8> {
    use plonky2::field::types::PrimeField64;
    v.iter().flat_map(|x| x.to_canonical_u64().to_le_bytes()).collect()
}

/// Digests of deterministic kernels (transforms, hashing, Merkle caps) on seeded data: identical
/// across SIMD builds (incidental cover of what C13-C15 state; not claimed for them).
fn kernel_digests(seed: u64) -> BTreeMap<String, String> {
    let mut r = Rng::new(seed);
    let mut out = BTreeMap::new();
    // element-wise batch helpers on every length 0..=40 (packed body + scalar leftovers)
    {
        use plonky2::field::batch_util::{batch_add_inplace, batch_multiply_inplace};
        let mut acc: Vec<u8> = Vec::new();
        for len in 0..=40usize {
            let a: Vec<F> = (0..len).map(|_| F::from_canonical_u64(r.felt_biased())).collect();
            let b: Vec<F> = (0..len).map(|_| F::from_canonical_u64(r.felt())).collect();
            let mut x = a.clone();
            batch_add_inplace(&mut x, &b);
            acc.extend(felts_bytes(&x));
            let mut y = a.clone();
            batch_multiply_inplace(&mut y, &b);
            acc.extend(felts_bytes(&y));
        }
        out.insert("batch_util_0_40".into(), h64(&acc));
    }
    // STARK proofs are fully deterministic under the sequential schedule: whole-proof digests
    // (recurrence tables and short lookup tables, whose helper columns go through the batch helpers)
    {
        use crate::c09::{stark_prove, SCfg};
        use crate::stark::*;
        let mut rs = Rng::new(seed ^ 0x57a2c);
        for k in 0..3 {
            let log_n = if k == 0 { rs.range(1, 2) } else { rs.range(2, 6) };
            let inst = loop {
                let i = if k < 2 { crate::c10::gen_lookup_instance(&mut rs, log_n) } else { gen_instance(&mut rs, log_n, 3, false) };
                if (i.def.cols, i.def.pis) == (4, 1) {
                    break i;
                }
            };
            let mut scfg = SCfg::draw(&mut rs, log_n, inst.def.degree, true);
            scfg.pow_bits = 0;
            scfg.security_bits = 0;
            if let Some(scfg) = scfg.admissible(log_n) {
                Sched::sequential().arm();
                let d = match stark_prove::<PC, 4, 1>(&inst.def, &scfg.to_config(), &inst.rows, &inst.pis) {
                    Ok(p) => h64(crate::mutate::canonical(&serde_json::to_value(&p).unwrap()).to_string().as_bytes()),
                    Err(e) => format!("no proof: {}", e.chars().take(40).collect::<String>()),
                };
                out.insert(format!("stark_proof_{k}_2^{log_n}"), d);
            }
        }
    }
    for log in [3usize, 6, 9] {
        let n = 1 << log;
        let coeffs: Vec<F> = (0..n).map(|_| F::from_canonical_u64(r.felt_biased())).collect();
        let pc = PolynomialCoeffs::new(coeffs.clone());
        let vals = pc.clone().fft();
        out.insert(format!("fft_{log}"), h64(&felts_bytes(&vals.values)));
        let back = vals.clone().ifft();
        out.insert(format!("ifft_{log}"), h64(&felts_bytes(&back.coeffs)));
        let lde = pc.lde(2).fft_with_options(Some(1), Some(&fft_root_table(4 * n)));
        out.insert(format!("lde_fft_{log}"), h64(&felts_bytes(&lde.values)));
        let cos = pc.coset_fft(F::MULTIPLICATIVE_GROUP_GENERATOR);
        out.insert(format!("coset_fft_{log}"), h64(&felts_bytes(&cos.values)));
        let pv = PolynomialValues::new(coeffs.clone()).lde(1);
        out.insert(format!("values_lde_{log}"), h64(&felts_bytes(&pv.values)));
        out.insert(format!("poseidon_{log}"), h64(&PoseidonHash::hash_no_pad(&coeffs).to_bytes()));
        out.insert(format!("keccak_{log}"), h64(&GenericHashOut::<F>::to_bytes(&<KeccakHash<25> as Hasher<F>>::hash_no_pad(&coeffs))));
        let leaves: Vec<Vec<F>> = coeffs.chunks(4).map(|c| c.to_vec()).collect();
        if leaves.len().is_power_of_two() {
            let t = MerkleTree::<F, PoseidonHash>::new(leaves, 0);
            out.insert(format!("merkle_{log}"), h64(&t.cap.0[0].to_bytes()));
        }
    }
    out
}

struct NodeView {
    digests: BTreeMap<String, String>,
}

fn view<C: GenericConfig<D, F = F>>(b: &Built<C>) -> Result<NodeView, String> {
    let mut d = BTreeMap::new();
    let vo = b.data.verifier_only.to_bytes().map_err(|e| format!("verifier_only.to_bytes: {e:?}"))?;
    d.insert("verifier_only_bytes".into(), h64(&vo));
    let co = b.data.common.to_bytes(&DefaultGateSerializer).map_err(|e| format!("common.to_bytes: {e:?}"))?;
    d.insert("common_bytes".into(), h64(&co));
    let po = &b.data.prover_only;
    let sig: Vec<u8> = po.sigmas.iter().flat_map(|r| felts_bytes(r)).collect();
    d.insert("sigmas".into(), h64(&sig));
    let polys: Vec<u8> = po.constants_sigmas_commitment.polynomials.iter().flat_map(|p| felts_bytes(&p.coeffs)).collect();
    d.insert("constants_sigmas_polynomials".into(), h64(&polys));
    let digs: Vec<u8> = po.constants_sigmas_commitment.merkle_tree.digests.iter().flat_map(|h| h.to_bytes()).collect();
    d.insert("constants_sigmas_tree_digests".into(), h64(&digs));
    d.insert("subgroup".into(), h64(&felts_bytes(&po.subgroup)));
    d.insert("k_is".into(), h64(&felts_bytes(&b.data.common.k_is)));
    d.insert("circuit_digest".into(), h64(&po.circuit_digest.to_bytes()));
    d.insert("num_generators".into(), format!("{}", po.generators.len()));
    Ok(NodeView { digests: d })
}

fn viol(rep: &mut Report, case: &Case, oracle: &str, detail: String) {
    rep.violation("C19", oracle, &format!("C19|{oracle}"), detail, serde_json::to_value(case).unwrap());
}

/// The part of a proof that precedes the grinding step (identical across schedules when the
/// circuit is not blinded and the entropy is the same).
fn pre_pow<C: GenericConfig<D, F = F>>(p: &ProofWithPublicInputs<F, C, D>) -> String {
    let v = json!([p.public_inputs, p.proof.wires_cap, p.proof.plonk_zs_partial_products_cap, p.proof.quotient_polys_cap, p.proof.openings,
        p.proof.opening_proof.commit_phase_merkle_caps, p.proof.opening_proof.final_poly]);
    h64(v.to_string().as_bytes())
}

fn exec_c<C: GenericConfig<D, F = F>>(case: &Case, rep: &mut Report) {
    let base_sig = prog_shape(&case.st.prog) ^ hash_str(&case.st.cfg.class()) ^ hash_value(&json!(case.st.prog.inputs));
    // ---- build under every schedule: identical keys and intermediates
    let mut first: Option<(Built<C>, NodeView)> = None;
    for (k, s) in case.scheds.iter().enumerate() {
        s.arm();
        // keys must not depend on the entropy a node happens to draw: every build gets its own stream
        let mut e = case.entropy.clone();
        e.seed = e.seed.wrapping_add(0x9E37_79B9 * k as u64);
        e.arm();
        let b = match build::<C>(&case.st) {
            BuildOutcome::Ok(b) => b,
            BuildOutcome::Unsat(e) => {
                rep.skip(&format!("unsat:{e}"));
                return;
            }
            BuildOutcome::Panicked(_) => {
                rep.skip("base:build_panicked (reported by C01)");
                return;
            }
        };
        rep.absorb_seams();
        let v = match view(&b) {
            Ok(v) => v,
            Err(e) => {
                rep.skip(&format!("cannot serialise keys: {e}"));
                return;
            }
        };
        match &first {
            None => first = Some((b, v)),
            Some((_, v0)) => {
                rep.case(base_sig ^ hash_str("build_sched") ^ k as u64, s.workers > 1);
                if v.digests != v0.digests {
                    let diff: Vec<&String> = v.digests.keys().filter(|k| v.digests[*k] != v0.digests[*k]).collect();
                    viol(rep, case, "keys_depend_on_schedule", format!("schedule {k} (workers {}): {:?} differ", s.workers, diff));
                    return;
                }
            }
        }
    }
    let (built, v0) = first.unwrap();
    let zk = built.cfg.zero_knowledge;
    let kd = kernel_digests(case.entropy.seed);

    // ---- foreign mode: compare with the other node's artifact, verify its proofs
    if let Some(f) = &case.foreign {
        let from = f["variant"].as_str().unwrap_or("?").to_string();
        let fd: BTreeMap<String, String> = serde_json::from_value(f["digests"].clone()).unwrap_or_default();
        rep.case(base_sig ^ hash_str("foreign_keys") ^ hash_str(&from), true);
        let mut mine = v0.digests.clone();
        mine.extend(kd.clone());
        if !zk && fd.contains_key("sequential_proof_bytes") {
            // same statement, same entropy seed, sequential schedule: the whole proof is deterministic
            arm(&Sched::sequential(), &case.entropy);
            if let Ok(p) = built.prove(built.honest_witness(&case.st)) {
                mine.insert("sequential_proof_bytes".into(), h64(&p.to_bytes()));
            }
            rep.absorb_seams();
        }
        let diff: Vec<&String> = fd.keys().filter(|k| mine.get(*k) != fd.get(*k)).collect();
        // a STARK prover that fails in one build only is reported by failure site, everything else generically
        let (failed, other): (Vec<&String>, Vec<&String>) = diff.into_iter().partition(|k| {
            k.starts_with("stark_proof") && (fd[*k].starts_with("no proof") || mine.get(*k).map_or(false, |m| m.starts_with("no proof")))
        });
        for k in failed {
            let msg = if fd[k].starts_with("no proof") { fd[k].clone() } else { mine[k].clone() };
            let site: String = msg.chars().map(|c| if c.is_ascii_digit() { '#' } else { c }).collect();
            rep.violation("C19", "stark_prover_fails_in_one_build_only", &format!("C19|stark_prover_fails_in_one_build_only|{site}"), format!("{k}: node {from} has '{}', this node '{}'", fd[k], mine.get(k).cloned().unwrap_or_default()), serde_json::to_value(case).unwrap());
        }
        if !other.is_empty() {
            viol(rep, case, "keys_or_intermediates_differ_between_nodes", format!("vs node {from}: {:?}", other));
        }
        for (i, ph) in f["proofs"].as_array().cloned().unwrap_or_default().iter().enumerate() {
            let bytes = unhex(ph.as_str().unwrap_or(""));
            rep.case(base_sig ^ hash_str("foreign_proof") ^ hash_str(&from) ^ i as u64, true);
            rep.fault("foreign_proof_delivered");
            match guarded(|| ProofWithPublicInputs::<F, C, D>::from_bytes(bytes.clone(), &built.data.common)) {
                Ok(Ok(p)) => {
                    if let Err(e) = built.verify(&p) {
                        viol(rep, case, "proof_from_other_node_rejected", format!("proof {i} from node {from}: {e}"));
                    }
                }
                other => viol(rep, case, "proof_from_other_node_rejected", format!("proof {i} from node {from} does not decode: {:?}", other.map(|r| r.is_ok()))),
            }
        }
        return;
    }

    // ---- local mode: prove under every schedule, cross-verify, emit the artifact
    let mut proofs: Vec<ProofWithPublicInputs<F, C, D>> = Vec::new();
    for (k, s) in case.scheds.iter().enumerate() {
        arm(s, &case.entropy);
        let p = built.prove(built.honest_witness(&case.st));
        rep.absorb_seams();
        match p {
            Ok(p) => {
                rep.case(base_sig ^ hash_str("prove_sched") ^ k as u64 ^ rayon::sim::stats().trace, true);
                if let Err(e) = built.verify(&p) {
                    viol(rep, case, "proof_under_schedule_rejected", format!("schedule {k}: {e}"));
                }
                proofs.push(p);
            }
            Err(_) => {
                rep.skip("base:honest_prove_failed (reported by C01)");
                return;
            }
        }
    }
    if !zk {
        let p0 = pre_pow(&proofs[0]);
        for (k, p) in proofs.iter().enumerate().skip(1) {
            rep.case(base_sig ^ hash_str("prepow") ^ k as u64, case.scheds[k].workers > 1);
            if pre_pow(p) != p0 {
                viol(rep, case, "proof_transcript_depends_on_schedule", format!("schedule {k} (workers {})", case.scheds[k].workers));
            }
        }
        let w: std::collections::BTreeSet<u64> = proofs.iter().map(|p| { use plonky2::field::types::PrimeField64; p.proof.opening_proof.pow_witness.to_canonical_u64() }).collect();
        if w.len() > 1 {
            rep.probe("c19.different_grinding_winners");
        }
    } else {
        rep.probe("c19.zk_cross_acceptance_only");
    }
    let mut digests = v0.digests.clone();
    digests.extend(kd);
    if let Ok(f) = std::env::var("P2SIM_DUMP_WITNESS") {
        use plonky2::iop::generator::generate_partial_witness;
        use plonky2::iop::witness::Witness;
        use plonky2::field::types::PrimeField64;
        case.entropy.arm();
        let w = generate_partial_witness(built.honest_witness(&case.st), &built.data.prover_only, &built.data.common).unwrap();
        let m = w.full_witness();
        let mut out = String::new();
        for r in 0..built.data.common.degree() {
            for c in 0..built.data.common.config.num_wires {
                out.push_str(&format!("{r} {c} {}\n", m.get_wire(r, c).to_canonical_u64()));
            }
        }
        std::fs::write(f, out).unwrap();
    }
    if !zk {
        // sequential-schedule proof: fully deterministic given the entropy seed
        digests.insert("sequential_proof_bytes".into(), h64(&proofs[0].to_bytes()));
    }
    emit_artifact(json!({
        "case": Case { foreign: None, ..case.clone() },
        "digests": digests,
        "proofs": proofs.iter().map(|p| hex(&p.to_bytes())).collect::<Vec<_>>(),
    }));
    rep.sample(json!({"config": built.cfg.class(), "schedules": case.scheds.iter().map(|s| s.workers).collect::<Vec<_>>(), "zk": zk, "digests": v0.digests}));
}

pub fn exec(case: &Value, rep: &mut Report) {
    let case: Case = serde_json::from_value(case.clone()).expect("malformed C19 case");
    with_config!(case.st.cfg.hash, exec_c, &case, rep)
}

pub fn shrink(case: &Value) -> Vec<Value> {
    let c: Case = serde_json::from_value(case.clone()).unwrap();
    let mut out = Vec::new();
    if c.foreign.is_some() {
        return vec![]; // a foreign artifact is bound to its statement
    }
    if c.scheds.len() > 2 {
        for k in 1..c.scheds.len() {
            let mut d = c.clone();
            d.scheds = vec![c.scheds[0].clone(), c.scheds[k].clone()];
            out.push(d);
        }
    }
    for st in shrink_statement(&c.st) {
        let mut d = c.clone();
        d.st = st;
        out.push(d);
    }
    out.into_iter().map(|d| serde_json::to_value(d).unwrap()).collect()
}
