//! C12 — Merkle commitments open only to the committed leaf at the committed position,
//! and the cap does not depend on how construction is scheduled.
use plonky2::field::goldilocks_field::GoldilocksField;
use plonky2::field::types::{Field, PrimeField64};
use plonky2::hash::batch_merkle_tree::BatchMerkleTree;
use plonky2::hash::keccak::KeccakHash;
use plonky2::hash::merkle_proofs::{
    verify_batch_merkle_proof_to_cap, verify_merkle_proof_to_cap, MerkleProof,
};
use plonky2::hash::merkle_tree::{MerkleCap, MerkleTree};
use plonky2::hash::poseidon::PoseidonHash;
use plonky2::plonk::config::{GenericHashOut, Hasher};
use serde::{Deserialize, Serialize};
use serde_json::{json, Value};

use crate::core::*;

type F = GoldilocksField;

#[derive(Clone, Debug, Serialize, Deserialize)]
pub struct Case {
    pub hasher: String, // "poseidon" | "keccak"
    /// log2 of the number of leaves of each matrix, strictly decreasing; one entry = plain tree.
    pub log_heights: Vec<usize>,
    pub widths: Vec<usize>,
    pub cap_height: usize,
    pub leaf_seed: u64,
    pub sched: Sched,
    /// positions opened (empty = chosen from leaf_seed)
    pub positions: Vec<usize>,
    /// index multiset for path compression
    pub multiset: Vec<usize>,
}

pub fn gen(rng: &mut Rng, tier: Tier) -> Value {
    let mut r = rng.sub("c12");
    let hasher = if r.chance(1, 3) { "keccak" } else { "poseidon" };
    let max_log = if tier == Tier::Quick { 8 } else { 10 };
    let batch = r.chance(1, 3);
    let top = if r.chance(1, 2) { r.range(0, 4) } else { r.range(0, max_log) };
    let mut log_heights = vec![top];
    if batch {
        let k = r.range(1, 3);
        let mut cur = top;
        for _ in 0..k {
            if cur == 0 {
                break;
            }
            cur = r.usize(cur);
            log_heights.push(cur);
        }
    }
    let widths: Vec<usize> = log_heights
        .iter()
        .map(|_| match r.below(4) {
            0 => r.range(1, 4),
            1 => r.range(3, 6),
            _ => r.range(1, 20),
        })
        .collect();
    let low = *log_heights.last().unwrap();
    let cap_height = match r.below(4) {
        0 => 0,
        1 => low,
        _ => r.range(0, low),
    };
    let n = 1usize << top;
    let npos = if top <= 4 { n } else { 8 };
    let mut positions: Vec<usize> = if top <= 4 {
        (0..n).collect()
    } else {
        let mut v = vec![0, n - 1, n / 2, n / 2 - 1];
        while v.len() < npos {
            v.push(r.usize(n));
        }
        v
    };
    positions.dedup();
    // index multiset: distinct / repeated / adjacent / sharing subtrees
    let k = r.range(1, 10);
    let mut multiset = Vec::new();
    for _ in 0..k {
        let i = match r.below(4) {
            0 if !multiset.is_empty() => *r.pick(&multiset),
            1 if !multiset.is_empty() => (*r.pick(&multiset) ^ 1) % n,
            2 if !multiset.is_empty() => (*r.pick(&multiset) ^ (1 << r.usize(top.max(1)))) % n,
            _ => r.usize(n),
        };
        multiset.push(i);
    }
    serde_json::to_value(Case {
        hasher: hasher.to_string(),
        log_heights,
        widths,
        cap_height,
        leaf_seed: r.u64(),
        sched: Sched::draw(&mut r),
        positions,
        multiset,
    })
    .unwrap()
}

fn leaves_for(case: &Case) -> Vec<Vec<Vec<F>>> {
    let mut r = Rng::new(case.leaf_seed);
    case.log_heights
        .iter()
        .zip(&case.widths)
        .map(|(&lh, &w)| {
            let base = r.felt();
            let biased = r.chance(1, 3);
            (0..1usize << lh)
                .map(|i| {
                    let mut leaf: Vec<F> = (0..w)
                        .map(|_| F::from_canonical_u64(if biased { r.felt_biased() } else { r.felt() }))
                        .collect();
                    // pairwise distinct leaves: element 0 is injective in i
                    leaf[0] = F::from_canonical_u64(base) + F::from_canonical_u64(i as u64);
                    leaf
                })
                .collect()
        })
        .collect()
}

/// REF-MERKLE: sequential level-by-level hashing; returns all levels (level 0 = leaf digests),
/// mixing in the shorter matrices when their height is reached.
fn ref_levels<H: Hasher<F>>(mats: &[Vec<Vec<F>>], cap_height: usize) -> Vec<Vec<H::Hash>> {
    let mut levels = Vec::new();
    let mut cur: Vec<H::Hash> = mats[0].iter().map(|l| H::hash_or_noop(l)).collect();
    let mut next_mat = 1;
    levels.push(cur.clone());
    while cur.len() > (1 << cap_height) {
        let mut nxt: Vec<H::Hash> = cur.chunks(2).map(|p| H::two_to_one(p[0], p[1])).collect();
        if next_mat < mats.len() && mats[next_mat].len() == nxt.len() {
            nxt = nxt
                .iter()
                .zip(&mats[next_mat])
                .map(|(d, leaf)| {
                    let mut v = d.to_vec();
                    v.extend_from_slice(leaf);
                    H::hash_or_noop(&v)
                })
                .collect();
            next_mat += 1;
        }
        cur = nxt;
        levels.push(cur.clone());
    }
    levels
}

fn other_hash<H: Hasher<F>>(h: H::Hash) -> H::Hash {
    H::two_to_one(h, h)
}

fn viol(rep: &mut Report, case: &Case, oracle: &str, detail: String) {
    rep.violation("C12", oracle, &format!("C12|{}", oracle), detail, serde_json::to_value(case).unwrap());
}

fn exec_h<H: Hasher<F>>(case: &Case, rep: &mut Report) {
    let mats = leaves_for(case);
    let batch = mats.len() > 1;
    let top = case.log_heights[0];
    let n = 1usize << top;
    let base_sig = hash_value(&json!([case.hasher, case.log_heights, case.widths, case.cap_height, case.leaf_seed]));
    let levels = ref_levels::<H>(&mats, case.cap_height);
    // the committed matrices hold the same field elements, some in their non-canonical machine representation x + p
    // (arithmetic produces it with probability ~2^-32 per element, deserialisation and `from_noncanonical_u64` at will)
    let mats_committed: Vec<Vec<Vec<F>>> = if case.leaf_seed & 1 == 1 {
        let mut rr = Rng::new(case.leaf_seed ^ 0x0c12);
        let mut any = false;
        let m = mats.iter().map(|m| m.iter().map(|leaf| leaf.iter().map(|x| {
            let c: u64 = x.to_canonical_u64();
            if c <= 0xFFFF_FFFE && rr.chance(1, 4) {
                any = true;
                F::from_noncanonical_u64(c + crate::core::P)
            } else {
                *x
            }
        }).collect()).collect()).collect();
        if any {
            rep.probe("c12.non_canonical_representation_in_leaves");
        }
        m
    } else {
        mats.clone()
    };
    let ref_cap: Vec<H::Hash> = levels.last().unwrap().clone();
    if case.widths.iter().any(|&w| w <= 4) {
        rep.probe("c12.leaf_not_hashed(noop)");
    }
    if case.widths.iter().any(|&w| w > 4) {
        rep.probe("c12.leaf_hashed");
    }
    if case.cap_height == *case.log_heights.last().unwrap() {
        rep.probe("c12.cap_at_leaf_level");
    }
    if batch {
        rep.probe("c12.batch_tree");
    }
    if case.hasher == "keccak" {
        rep.probe("c12.keccak");
    }

    // --- construction under the simulated schedule and under the sequential one
    case.sched.arm();
    let built = guarded(|| {
        if batch {
            let t = BatchMerkleTree::<F, H>::new(mats_committed.clone(), case.cap_height);
            (t.cap.clone(), t.digests.clone(), Some(t), None)
        } else {
            let t = MerkleTree::<F, H>::new(mats_committed[0].clone(), case.cap_height);
            (t.cap.clone(), t.digests.clone(), None, Some(t))
        }
    });
    rep.absorb_seams();
    let (cap, digests, bt, pt) = match built {
        Ok(x) => x,
        Err(e) => {
            viol(rep, case, "construction_panicked", e);
            return;
        }
    };
    let nontriv = top >= 1;
    rep.case(base_sig ^ hash_str("cap"), nontriv);
    if cap.0 != ref_cap {
        viol(rep, case, "cap_differs_from_reference", format!("workers={} cap_len={}", case.sched.workers, cap.0.len()));
        return;
    }
    Sched::sequential().arm();
    let seq = guarded(|| {
        if batch {
            let t = BatchMerkleTree::<F, H>::new(mats_committed.clone(), case.cap_height);
            (t.cap, t.digests)
        } else {
            let t = MerkleTree::<F, H>::new(mats_committed[0].clone(), case.cap_height);
            (t.cap, t.digests)
        }
    });
    match seq {
        Ok((c2, d2)) => {
            rep.case(base_sig ^ hash_str("sched_indep"), nontriv && case.sched.workers > 1);
            if c2 != cap || d2 != digests {
                viol(rep, case, "tree_depends_on_schedule", format!("workers={}", case.sched.workers));
                return;
            }
        }
        Err(e) => {
            viol(rep, case, "construction_panicked", e);
            return;
        }
    }

    // --- openings
    let heights: Vec<usize> = case.log_heights.clone();
    let open = |i: usize| -> MerkleProof<F, H> {
        if let Some(t) = &bt {
            t.open_batch(i)
        } else {
            pt.as_ref().unwrap().prove(i)
        }
    };
    let leaf_data = |i: usize| -> Vec<Vec<F>> {
        mats.iter().zip(&heights).map(|(m, &h)| m[i >> (top - h)].clone()).collect()
    };
    let verify = |data: &[Vec<F>], i: usize, cap: &MerkleCap<F, H>, p: &MerkleProof<F, H>| -> Result<bool, String> {
        guarded(|| {
            if batch {
                verify_batch_merkle_proof_to_cap(data, &heights, i, cap, p).is_ok()
            } else {
                verify_merkle_proof_to_cap(data[0].clone(), i, cap, p).is_ok()
            }
        })
    };
    let path_len = top - case.cap_height;
    for &i in &case.positions {
        if i >= n {
            continue;
        }
        let sig = base_sig ^ (i as u64).wrapping_mul(0x9E3779B97F4A7C15);
        let proof = match guarded(|| open(i)) {
            Ok(p) => p,
            Err(e) => {
                viol(rep, case, "prove_panicked", format!("pos {i}: {e}"));
                continue;
            }
        };
        // reference siblings
        let ref_sibs: Vec<H::Hash> = (0..path_len).map(|l| levels[l][(i >> l) ^ 1]).collect();
        rep.case(sig ^ hash_str("siblings"), path_len > 0);
        if proof.siblings != ref_sibs {
            viol(rep, case, "siblings_differ_from_reference", format!("pos {i}"));
            continue;
        }
        let data = leaf_data(i);
        rep.case(sig ^ hash_str("honest"), nontriv);
        if verify(&data, i, &cap, &proof) != Ok(true) {
            viol(rep, case, "honest_opening_rejected", format!("pos {i}"));
            continue;
        }
        if let Some(t) = &bt {
            if t.values(i) != data {
                viol(rep, case, "batch_values_wrong", format!("pos {i}"));
            }
        }
        // fault: other leaf of the same width at this position
        if n > 1 {
            let j = (i + 1 + (sig as usize % (n - 1))) % n;
            let mut d2 = data.clone();
            d2[0] = mats[0][j].clone();
            rep.fault("other_leaf");
            rep.case(sig ^ hash_str("other_leaf"), true);
            if verify(&d2, i, &cap, &proof) == Ok(true) {
                viol(rep, case, "accepted_other_leaf", format!("pos {i} leaf {j}"));
            }
            // fault: a near leaf - one bit of one element flipped (every element in turn)
            for e in 0..data[0].len() {
                use plonky2::field::types::PrimeField64;
                let x = data[0][e].to_canonical_u64();
                let start = (sig >> 7) as usize + e * 11;
                if let Some(bit) = (0..64).map(|k| (start + k) % 64).find(|&b| (x ^ (1u64 << b)) < P) {
                    let mut d4 = data.clone();
                    d4[0][e] = F::from_canonical_u64(x ^ (1u64 << bit));
                    rep.fault("leaf_bitflip");
                    rep.case(sig ^ hash_str("leaf_bitflip") ^ ((e as u64) << 8 | bit as u64), true);
                    if verify(&d4, i, &cap, &proof) == Ok(true) {
                        viol(rep, case, "accepted_near_leaf", format!("pos {i} element {e} bit {bit}"));
                    }
                }
            }
            // fault: same leaf, a position outside the tree that aliases the real one
            for m in [1usize, 2, 5] {
                let j = i + m * n;
                rep.fault("aliased_position");
                rep.case(sig ^ hash_str("alias_pos") ^ (m as u64) << 20, true);
                if verify(&data, j, &cap, &proof) == Ok(true) {
                    viol(rep, case, "accepted_other_position", format!("leaf {i} at out-of-range pos {j}"));
                }
            }
            // fault: same leaf, other position (all positions < n for small trees, else a few)
            let others: Vec<usize> = if n <= 16 { (0..n).filter(|&j| j != i).collect() } else { vec![j, i ^ 1, i ^ (n >> 1), (i + 1) % n] };
            for j in others {
                if j == i {
                    continue;
                }
                rep.fault("other_position");
                rep.case(sig ^ hash_str("other_pos") ^ (j as u64) << 20, true);
                if verify(&data, j, &cap, &proof) == Ok(true) {
                    viol(rep, case, "accepted_other_position", format!("leaf {i} at pos {j}"));
                }
            }
            // fault: one altered element of a lower matrix's data (batch)
            for m in 1..data.len() {
                let mut d3 = data.clone();
                d3[m][0] += F::ONE;
                rep.fault("batch_lower_leaf");
                rep.case(sig ^ hash_str("lower") ^ m as u64, true);
                if verify(&d3, i, &cap, &proof) == Ok(true) {
                    viol(rep, case, "accepted_altered_lower_matrix_leaf", format!("pos {i} matrix {m}"));
                }
            }
        }
        // fault: every sibling altered in turn
        for s in 0..proof.siblings.len() {
            for (kind, newh) in [("sibling_rehash", other_hash::<H>(proof.siblings[s])), ("sibling_swap", levels[s][i >> s])] {
                if newh == proof.siblings[s] {
                    continue;
                }
                let mut p2 = proof.clone();
                p2.siblings[s] = newh;
                rep.fault(kind);
                rep.case(sig ^ hash_str(kind) ^ (s as u64) << 8, true);
                if verify(&data, i, &cap, &p2) == Ok(true) {
                    viol(rep, case, "accepted_altered_sibling", format!("pos {i} sibling {s} {kind}"));
                }
            }
        }
        // fault: the cap entry this opening lands on
        let ci = i >> path_len;
        let mut cap2 = cap.clone();
        cap2.0[ci] = other_hash::<H>(cap2.0[ci]);
        rep.fault("cap_entry");
        rep.case(sig ^ hash_str("cap_entry"), true);
        if verify(&data, i, &cap2, &proof) == Ok(true) {
            viol(rep, case, "accepted_altered_cap", format!("pos {i} cap entry {ci}"));
        }
        if cap.0.len() > 1 {
            let cj = (ci + 1) % cap.0.len();
            let mut cap3 = cap.clone();
            cap3.0.swap(ci, cj);
            if cap3 != cap {
                rep.fault("cap_swap");
                rep.case(sig ^ hash_str("cap_swap"), true);
                if verify(&data, i, &cap3, &proof) == Ok(true) {
                    viol(rep, case, "accepted_swapped_cap", format!("pos {i}"));
                }
            }
        }
    }

    // --- compressed multi-proofs (plain trees; the library only compresses those)
    #[cfg(feature = "hooks")]
    if !batch && !case.multiset.is_empty() {
        use plonky2::hash::path_compression::verif_hooks::{compress, decompress};
        let idx: Vec<usize> = case.multiset.iter().map(|&i| i % n).collect();
        let proofs: Vec<MerkleProof<F, H>> = idx.iter().map(|&i| open(i)).collect();
        let data: Vec<Vec<F>> = idx.iter().map(|&i| mats[0][i].clone()).collect();
        let mut sorted = idx.clone();
        sorted.sort();
        sorted.dedup();
        if sorted.len() < idx.len() {
            rep.probe("c12.multiset_repeated_index");
        }
        if idx.iter().any(|&a| idx.iter().any(|&b| a != b && a ^ 1 == b)) {
            rep.probe("c12.multiset_adjacent");
        }
        let sig = base_sig ^ hash_value(&json!(idx));
        let r = guarded(|| {
            let c = compress::<F, H>(case.cap_height, &idx, &proofs);
            let d = decompress::<F, H>(&data, &idx, &c, top, case.cap_height);
            let saved: usize = proofs.iter().map(|p| p.siblings.len()).sum::<usize>()
                - c.iter().map(|p| p.siblings.len()).sum::<usize>();
            (d == proofs, saved)
        });
        rep.case(sig ^ hash_str("multi"), path_len > 0 && idx.len() > 1);
        match r {
            Ok((true, saved)) => {
                if saved > 0 {
                    rep.probe("c12.compression_removed_siblings");
                }
            }
            Ok((false, _)) => viol(rep, case, "decompress_compress_not_identity", format!("indices {:?}", idx)),
            Err(e) => viol(rep, case, "path_compression_panicked", format!("indices {:?}: {e}", idx)),
        }
    }
    rep.sample(json!({"case": case, "cap_entries": cap.0.len(), "positions_opened": case.positions.len()}));
}

pub fn exec(case: &Value, rep: &mut Report) {
    let case: Case = serde_json::from_value(case.clone()).expect("malformed C12 case");
    if case.hasher == "keccak" {
        exec_h::<KeccakHash<25>>(&case, rep)
    } else {
        exec_h::<PoseidonHash>(&case, rep)
    }
}

pub fn shrink(case: &Value) -> Vec<Value> {
    let c: Case = serde_json::from_value(case.clone()).unwrap();
    let mut out = Vec::new();
    let mut push = |c: Case| out.push(serde_json::to_value(c).unwrap());
    if c.sched.workers > 1 {
        let mut d = c.clone();
        d.sched = Sched::sequential();
        push(d);
        let mut d = c.clone();
        d.sched.workers = 2;
        push(d);
    }
    if c.log_heights.len() > 1 {
        let mut d = c.clone();
        d.log_heights.pop();
        d.widths.pop();
        push(d);
    }
    if c.log_heights[0] > 0 && (c.log_heights.len() == 1 || c.log_heights[0] - 1 > c.log_heights[1]) {
        let mut d = c.clone();
        d.log_heights[0] -= 1;
        let n = 1usize << d.log_heights[0];
        d.cap_height = d.cap_height.min(*d.log_heights.last().unwrap());
        d.positions = d.positions.iter().map(|&p| p % n).collect();
        d.multiset = d.multiset.iter().map(|&p| p % n).collect();
        push(d);
    }
    if c.cap_height > 0 {
        let mut d = c.clone();
        d.cap_height -= 1;
        push(d);
    }
    for m in 0..c.widths.len() {
        if c.widths[m] > 1 {
            let mut d = c.clone();
            d.widths[m] = if c.widths[m] > 5 { 5 } else { c.widths[m] - 1 };
            push(d);
        }
    }
    if c.positions.len() > 1 {
        for k in 0..c.positions.len() {
            let mut d = c.clone();
            d.positions = vec![c.positions[k]];
            push(d);
        }
    }
    if c.multiset.len() > 1 {
        for k in 0..c.multiset.len() {
            let mut d = c.clone();
            d.multiset.remove(k);
            push(d);
        }
    }
    if c.hasher == "keccak" {
        let mut d = c.clone();
        d.hasher = "poseidon".into();
        push(d);
    }
    out
}
