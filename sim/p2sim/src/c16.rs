//! C16 — proof compression is lossless and verification-equivalent, including when several
//! queries share an index or a coset.
use plonky2::plonk::config::GenericConfig;
use plonky2::plonk::proof::{CompressedProofWithPublicInputs, ProofWithPublicInputs};
use serde::{Deserialize, Serialize};
use serde_json::{json, Value};

use crate::c01::prog_shape;
use crate::core::*;
use crate::mutate::*;
use crate::pipeline::*;
use crate::prog::*;
use crate::with_config;

#[derive(Clone, Debug, Serialize, Deserialize)]
pub struct Case {
    pub st: Statement,
    pub sched: Sched,
    pub entropy: Entropy,
    pub fault_seed: u64,
    #[serde(default)]
    pub only: Option<(String, Fault)>,
}

pub fn gen(rng: &mut Rng, _tier: Tier) -> Value {
    // collision-biased: tiny programs (small domains) with many queries
    let mut st = draw_statement(rng, 8, true, false);
    let mut r = rng.sub("c16");
    if r.chance(3, 4) {
        st.prog.ops.truncate(r.range(0, 3));
        // outputs must still exist
        let n = st.prog.eval(&st.prog.inputs).map(|v| v.len()).unwrap_or(0);
        st.prog.outputs.retain(|&o| o < n);
        for t in 0..st.prog.tables.len() {
            let _ = t;
        }
        if !st.prog.tables.is_empty() && !st.prog.ops.iter().any(|o| matches!(o, Op::Lookup(..))) {
            st.prog.tables.clear();
        }
    }
    if r.chance(1, 4) && !st.cfg.zero_knowledge {
        // deep, mixed-arity schedule: three or four reduction layers of different arities on a circuit tall enough to carry them
        let k = r.range(3, 4);
        let mut ar: Vec<usize> = (0..k).map(|_| r.range(1, 3)).collect();
        if ar.iter().all(|a| *a == ar[0]) {
            ar[1] = if ar[0] == 1 { 2 } else { 1 };
        }
        let total: usize = ar.iter().sum();
        let total = total.min(7);
        st.cfg.strategy = Strat::Fixed(ar);
        let x = st.prog.eval(&st.prog.inputs).map(|v| v.len()).unwrap_or(0);
        if x > 0 {
            // one Poseidon row per hash op
            let src = (0..st.prog.inputs.len()).find(|i| matches!(st.prog.inputs[*i], Val::F(_)));
            if let Some(src) = src {
                for _ in 0..(1usize << total) {
                    st.prog.ops.push(Op::Hash(vec![src]));
                }
            }
        }
    }
    if !st.cfg.zero_knowledge {
        st.cfg.num_query_rounds = *r.pick(&[28, 28, 40, 56, 84]);
    } else {
        st.cfg.num_query_rounds = r.range(8, 12);
    }
    st.cfg.security_bits = st.cfg.security_bits.min(st.cfg.num_query_rounds * st.cfg.rate_bits);
    let mut rs = rng.sub("schedule");
    let mut re = rng.sub("entropy");
    serde_json::to_value(Case { st, sched: Sched::draw(&mut rs), entropy: Entropy::draw(&mut re), fault_seed: r.u64(), only: None }).unwrap()
}

fn viol(rep: &mut Report, case: &Case, oracle: &str, only: Option<(String, Fault)>, detail: String) {
    let mut c = case.clone();
    let comp = only.as_ref().map(|(_, f)| component(f.path())).unwrap_or_default();
    c.only = only;
    rep.violation("C16", oracle, &format!("C16|{oracle}|{comp}"), detail, serde_json::to_value(&c).unwrap());
}

fn exec_c<C: GenericConfig<D, F = F>>(case: &Case, rep: &mut Report) {
    let (built, proof) = match honest_accepted::<C>(&case.st, &case.sched, &case.entropy, rep) {
        Some(x) => x,
        None => return,
    };
    let data = &built.data;
    let common = &data.common;
    let base_sig = prog_shape(&case.st.prog) ^ hash_str(&built.cfg.class()) ^ hash_value(&json!(case.st.prog.inputs)) ^ rayon::sim::stats().trace;
    // collision probes
    let idx = proof
        .get_challenges(proof.get_public_inputs_hash(), &data.verifier_only.circuit_digest, common)
        .map(|c| c.fri_challenges.fri_query_indices)
        .unwrap_or_default();
    let mut s = idx.clone();
    s.sort();
    s.dedup();
    let repeated = s.len() < idx.len();
    if repeated {
        rep.probe("c16.queries_share_an_index");
    }
    let mut shift = 0;
    for (l, a) in common.fri_params.reduction_arity_bits.iter().enumerate() {
        shift += a;
        let mut cosets: Vec<usize> = s.iter().map(|i| i >> shift).collect();
        let before = cosets.len();
        cosets.dedup();
        if cosets.len() < before {
            rep.probe(&format!("c16.distinct_indices_share_a_coset_at_layer_{}", l.min(3)));
        }
    }
    rep.probe(&format!("c16.lde_bits_{}", built.lde_bits()));

    // (a) lossless + accepted
    rep.case(base_sig, true);
    let cp = match guarded(|| data.compress(proof.clone())) {
        Ok(Ok(c)) => c,
        Ok(Err(e)) => return viol(rep, case, "compress_failed_on_accepted_proof", None, format!("{e}")),
        Err(e) => return viol(rep, case, "compress_failed_on_accepted_proof", None, format!("panic {e}")),
    };
    match guarded(|| data.decompress(cp.clone())) {
        Ok(Ok(p2)) => {
            if p2 != proof {
                return viol(rep, case, "decompress_compress_not_identity", None, format!("repeated_index={repeated}"));
            }
        }
        Ok(Err(e)) => return viol(rep, case, "decompress_failed", None, format!("{e}")),
        Err(e) => return viol(rep, case, "decompress_failed", None, format!("panic {e}")),
    }
    match guarded(|| data.verify_compressed(cp.clone())) {
        Ok(Ok(())) => {}
        Ok(Err(e)) => return viol(rep, case, "compressed_form_of_accepted_proof_rejected", None, format!("{e}")),
        Err(e) => return viol(rep, case, "compressed_form_of_accepted_proof_rejected", None, format!("panic {e}")),
    }
    // byte channel for the compressed form
    let bytes = cp.to_bytes();
    match guarded(|| CompressedProofWithPublicInputs::<F, C, D>::from_bytes(bytes.clone(), common)) {
        Ok(Ok(c2)) if c2 == cp => {}
        other => return viol(rep, case, "compressed_bytes_do_not_round_trip", None, format!("{:?}", other.map(|r| r.is_ok()))),
    }
    // compressed size is never larger
    if bytes.len() > proof.to_bytes().len() {
        rep.probe("c16.compressed_not_smaller");
    }

    let mut r = Rng::new(case.fault_seed);
    // (b) value faults on the compressed message: both verification routes give the same verdict
    let tree = serde_json::to_value(&cp).unwrap();
    let sh = shape(&tree);
    let leaves: Vec<Path> = sh.leaves.iter().filter(|p| !component(p).contains("query_round_proofs/indices")).cloned().collect();
    let faults: Vec<Fault> = match &case.only {
        Some((form, f)) if form == "compressed" => vec![f.clone()],
        Some(_) => vec![],
        None => {
            let mut v: Vec<Fault> = stratified(&leaves, &mut r, 1).into_iter().map(|p| Fault::Elem { path: p, kind: "plus1".into(), seed: 0 }).collect();
            // the public-input list itself: truncated / zero-extended (same unpadded hash when the values are zero)
            for k in ["drop_last", "append_zero", "duplicate_last"] {
                v.push(Fault::List { path: vec![Seg::K("public_inputs".into())], kind: k.into() });
            }
            v
        }
    };
    for f in &faults {
        let mut t = tree.clone();
        if !apply(&mut t, f) {
            continue;
        }
        let c2: CompressedProofWithPublicInputs<F, C, D> = match serde_json::from_value(t) {
            Ok(c) => c,
            Err(_) => continue,
        };
        rep.fault(&format!("compressed.{}", f.kind()));
        rep.case(base_sig ^ hash_value(&serde_json::to_value(f).unwrap()), true);
        let direct = matches!(guarded(|| data.verify_compressed(c2.clone())), Ok(Ok(())));
        let via = match guarded(|| data.decompress(c2.clone())) {
            Ok(Ok(p)) => matches!(guarded(|| data.verify(p)), Ok(Ok(()))),
            _ => false,
        };
        if direct != via {
            viol(rep, case, "verdicts_differ_between_verify_compressed_and_decompress_then_verify", Some(("compressed".into(), f.clone())),
                format!("direct={direct} via_decompress={via} at {}", path_str(f.path())));
        }
    }
    // (c) faults on absorbed data of the plain proof: rejected before and after compression
    let ptree = serde_json::to_value(&proof).unwrap();
    let psh = shape(&ptree);
    let absorbed: Vec<Path> = psh.leaves.iter().filter(|p| !component(p).contains("query_round_proofs")).cloned().collect();
    let pf: Vec<Fault> = match &case.only {
        Some((form, f)) if form == "plain" => vec![f.clone()],
        Some(_) => vec![],
        None => stratified(&absorbed, &mut r, 0).into_iter().map(|p| Fault::Elem { path: p, kind: "plus1".into(), seed: 0 }).collect(),
    };
    if built.cfg.num_query_rounds * built.lde_bits() >= 64 {
        for f in &pf {
            let mut t = ptree.clone();
            if !apply(&mut t, f) {
                continue;
            }
            let p2: ProofWithPublicInputs<F, C, D> = match serde_json::from_value(t) {
                Ok(p) => p,
                Err(_) => continue,
            };
            rep.fault("plain.absorbed.plus1_then_compress");
            rep.case(base_sig ^ hash_str("plain") ^ hash_value(&serde_json::to_value(f).unwrap()), true);
            let plain = matches!(guarded(|| data.verify(p2.clone())), Ok(Ok(())));
            let comp = match guarded(|| data.compress(p2.clone())) {
                Ok(Ok(c)) => matches!(guarded(|| data.verify_compressed(c)), Ok(Ok(()))),
                _ => false,
            };
            if plain != comp {
                viol(rep, case, "verdict_changes_under_compression", Some(("plain".into(), f.clone())), format!("plain={plain} compressed={comp} at {}", path_str(f.path())));
            }
        }
    }
    rep.sample(json!({"config": built.cfg.class(), "lde_bits": built.lde_bits(), "queries": built.cfg.num_query_rounds, "distinct_indices": s.len(),
        "compressed_bytes": bytes.len(), "compressed_faults": faults.len(), "plain_faults": pf.len()}));
}

pub fn exec(case: &Value, rep: &mut Report) {
    let case: Case = serde_json::from_value(case.clone()).expect("malformed C16 case");
    with_config!(case.st.cfg.hash, exec_c, &case, rep)
}

pub fn shrink(case: &Value) -> Vec<Value> {
    let c: Case = serde_json::from_value(case.clone()).unwrap();
    let mut out = Vec::new();
    if c.sched.workers > 1 {
        let mut d = c.clone();
        d.sched = Sched::sequential();
        out.push(d);
    }
    for st in shrink_statement(&c.st) {
        let mut d = c.clone();
        d.st = st;
        out.push(d);
    }
    if c.st.cfg.num_query_rounds > 2 {
        let mut d = c.clone();
        d.st.cfg.num_query_rounds /= 2;
        d.st.cfg.security_bits = 0;
        out.push(d);
    }
    out.into_iter().map(|d| serde_json::to_value(d).unwrap()).collect()
}
