//! Worker binary:  p2sim run|replay|minimise|gen ...
use std::collections::BTreeMap;
use std::io::Write;

use p2sim::core::*;

#[global_allocator]
static ALLOC: p2sim::alloc_watch::Watch = p2sim::alloc_watch::Watch;
use p2sim::{registry, Property};
use serde_json::{json, Value};

fn arg<'a>(args: &'a [String], name: &str) -> Option<&'a str> {
    args.iter().position(|a| a == name).and_then(|i| args.get(i + 1)).map(|s| s.as_str())
}

fn find(id: &str) -> Property {
    registry().into_iter().find(|p| p.id == id).unwrap_or_else(|| {
        eprintln!("unknown property {id}");
        std::process::exit(2)
    })
}

fn exec_case(p: &Property, case: &Value) -> Report {
    let mut rep = Report::default();
    // every case starts from the same scheduler and entropy state, whatever the process executed before: a step that a
    // property module forgets to arm is then still a pure function of the case (replay, minimisation, sharding)
    rayon::sim::set(0x5eed, 1);
    getrandom::verif_arm(Some((0x5eed, getrandom::Mode::Stream)));
    match guarded(|| (p.exec)(case, &mut rep)) {
        Ok(()) => {}
        Err(e) => {
            eprintln!("HARNESS-ERROR: exec panicked outside a guarded call: {e}\ncase={case}");
            std::process::exit(2);
        }
    }
    rep.runs = 1;
    rep
}

fn main() {
    // Panics inside guarded calls are expected observations; keep stderr quiet unless asked.
    if std::env::var("P2SIM_PANIC_TRACE").is_err() {
        std::panic::set_hook(Box::new(|_| {}));
    }
    let args: Vec<String> = std::env::args().collect();
    let cmd = args.get(1).map(|s| s.as_str()).unwrap_or("");
    match cmd {
        "run" => {
            let p = find(arg(&args, "--property").expect("--property"));
            let tier = if arg(&args, "--tier") == Some("thorough") { Tier::Thorough } else { Tier::Quick };
            let seed: u64 = arg(&args, "--seed").unwrap_or("1").parse().expect("seed");
            let from: u64 = arg(&args, "--from").unwrap_or("0").parse().unwrap();
            let to: u64 = arg(&args, "--to").map(|s| s.parse().unwrap()).unwrap_or(if tier == Tier::Quick { p.runs.0 } else { p.runs.1 });
            let worker: u64 = arg(&args, "--worker").unwrap_or("0").parse().unwrap();
            let workers: u64 = arg(&args, "--workers").unwrap_or("1").parse().unwrap();
            let out = arg(&args, "--out");
            let log = arg(&args, "--event-log");
            let mut total = Report::default();
            let mut events: Vec<(u64, u64)> = Vec::new();
            let progress = arg(&args, "--progress");
            let mut art = arg(&args, "--artifacts").map(|f| std::io::BufWriter::new(std::fs::File::create(f).unwrap()));
            // explicit cases (one JSON per line) instead of generated ones: nodes consuming other nodes' output
            let explicit: Option<Vec<Value>> = arg(&args, "--cases").map(|f| {
                std::fs::read_to_string(f).unwrap().lines().filter(|l| !l.trim().is_empty()).map(|l| serde_json::from_str(l).unwrap()).collect()
            });
            let to = explicit.as_ref().map(|e| e.len() as u64).unwrap_or(to);
            for idx in from..to {
                if idx % workers != worker {
                    continue;
                }
                let rs = run_seed(seed, p.id, idx);
                let mut rng = Rng::new(rs);
                let case = match &explicit {
                    Some(e) => e[idx as usize].clone(),
                    None => (p.gen)(&mut rng, tier),
                };
                if let Some(pf) = progress {
                    // case id is logged before the call so that an abort is attributable
                    let _ = std::fs::write(pf, format!("{} {} {}\n", p.id, idx, case));
                }
                let rep = exec_case(&p, &case);
                events.push((idx, rep.event_digest));
                if let Some(w) = art.as_mut() {
                    for a in take_artifacts() {
                        writeln!(w, "{}", json!({"idx": idx, "artifact": a})).unwrap();
                    }
                } else {
                    take_artifacts();
                }
                let mut rep = rep;
                for v in rep.violations.iter_mut() {
                    if let Value::Object(m) = &mut v.case {
                        m.insert("_run".into(), json!({"verif_seed": seed, "run_index": idx, "run_seed": rs}));
                    }
                }
                total.merge(rep);
            }
            let mut sigs = std::mem::take(&mut total.sigs);
            sigs.sort_unstable();
            sigs.dedup();
            total.sigs = sigs;
            let mut tr = std::mem::take(&mut total.sched_traces);
            tr.sort_unstable();
            tr.dedup();
            total.sched_traces = tr;
            let v = serde_json::to_string(&total).unwrap();
            match out {
                Some(f) => std::fs::write(f, v).unwrap(),
                None => println!("{v}"),
            }
            if let Some(f) = log {
                let mut w = std::io::BufWriter::new(std::fs::File::create(f).unwrap());
                for (i, d) in events {
                    writeln!(w, "{i} {d:016x}").unwrap();
                }
            }
        }
        "gen" => {
            let p = find(arg(&args, "--property").expect("--property"));
            let tier = if arg(&args, "--tier") == Some("thorough") { Tier::Thorough } else { Tier::Quick };
            let seed: u64 = arg(&args, "--seed").unwrap_or("1").parse().expect("seed");
            let idx: u64 = arg(&args, "--index").unwrap_or("0").parse().unwrap();
            let mut rng = Rng::new(run_seed(seed, p.id, idx));
            println!("{}", (p.gen)(&mut rng, tier));
        }
        "replay" => {
            // p2sim replay <file>: exit 1 and print the violation records if the case still violates.
            let f = args.get(2).expect("replay file");
            let v: Value = serde_json::from_str(&std::fs::read_to_string(f).expect("read replay")).expect("json");
            let p = find(v["property"].as_str().expect("property"));
            let rep = exec_case(&p, &v["case"]);
            let want = v["oracle"].as_str();
            let hits: Vec<&Violation> = rep.violations.iter().filter(|x| want.map_or(true, |w| x.oracle == w)).collect();
            for h in &hits {
                println!("REPLAY-VIOLATION property={} oracle={} key={} detail={}", h.property, h.oracle, h.key, h.detail);
            }
            if hits.is_empty() {
                println!("REPLAY-CLEAN property={} (executed {} cases)", p.id, rep.evaluations);
                std::process::exit(0);
            }
            std::process::exit(1);
        }
        "minimise" => {
            // p2sim minimise <in> <out>: greedy shrinking while the same oracle keeps firing.
            let f = args.get(2).expect("in file");
            let o = args.get(3).expect("out file");
            let budget: usize = arg(&args, "--budget").unwrap_or("200").parse().unwrap();
            let mut v: Value = serde_json::from_str(&std::fs::read_to_string(f).unwrap()).unwrap();
            let p = find(v["property"].as_str().unwrap());
            let oracle = v["oracle"].as_str().unwrap().to_string();
            let mut cur = v["case"].clone();
            let mut execs = 0usize;
            let mut steps = 0usize;
            let mut detail = v["detail"].clone();
            'outer: loop {
                for cand in (p.shrink)(&cur) {
                    if execs >= budget {
                        break 'outer;
                    }
                    execs += 1;
                    let rep = exec_case(&p, &cand);
                    if let Some(h) = rep.violations.iter().find(|x| x.oracle == oracle) {
                        // the violation may carry a narrowed case; keep narrowing from it
                        cur = h.case.clone();
                        detail = json!(h.detail);
                        steps += 1;
                        continue 'outer;
                    }
                }
                break;
            }
            v["case"] = cur;
            v["detail"] = detail;
            v["minimised"] = json!({"executions": execs, "accepted_steps": steps});
            std::fs::write(o, serde_json::to_string_pretty(&v).unwrap()).unwrap();
            println!("minimised: {execs} executions, {steps} accepted steps");
        }
        "list" => {
            let m: BTreeMap<&str, (u64, u64)> = registry().iter().map(|p| (p.id, p.runs)).collect();
            println!("{}", serde_json::to_string(&m).unwrap());
        }
        _ => {
            eprintln!("usage: p2sim run --property ID [--tier quick|thorough] [--seed N] [--from a --to b] [--worker w --workers W] [--out file]\n       p2sim replay FILE | minimise IN OUT | gen --property ID --index i | list");
            std::process::exit(2);
        }
    }
}
