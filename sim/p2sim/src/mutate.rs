//! Message faults at struct level (DESIGN §3.5): a proof is serialised to a JSON tree, every
//! number leaf is an element position (field element, digest word or digest byte) and every array
//! is a list; faults are applied on the tree and the result is decoded back into the typed value.
use serde::{Deserialize, Serialize};
use serde_json::Value;

use crate::core::{Rng, P};

#[derive(Clone, Debug, PartialEq, Eq, Serialize, Deserialize)]
pub enum Seg {
    K(String),
    I(usize),
}

pub type Path = Vec<Seg>;

pub fn path_str(p: &Path) -> String {
    p.iter()
        .map(|s| match s {
            Seg::K(k) => k.clone(),
            Seg::I(i) => i.to_string(),
        })
        .collect::<Vec<_>>()
        .join("/")
}

/// The component of a position: its path with list indices replaced by `*`.
pub fn component(p: &Path) -> String {
    p.iter()
        .map(|s| match s {
            Seg::K(k) => {
                if k.chars().all(|c| c.is_ascii_digit()) {
                    "#".to_string()
                } else {
                    k.clone()
                }
            }
            Seg::I(_) => "*".to_string(),
        })
        .collect::<Vec<_>>()
        .join("/")
}

pub fn get<'a>(v: &'a Value, p: &Path) -> Option<&'a Value> {
    let mut cur = v;
    for s in p {
        cur = match s {
            Seg::K(k) => cur.get(k)?,
            Seg::I(i) => cur.get(*i)?,
        };
    }
    Some(cur)
}

pub fn get_mut<'a>(v: &'a mut Value, p: &Path) -> Option<&'a mut Value> {
    let mut cur = v;
    for s in p {
        cur = match s {
            Seg::K(k) => cur.get_mut(k)?,
            Seg::I(i) => cur.get_mut(*i)?,
        };
    }
    Some(cur)
}

fn walk(v: &Value, cur: &mut Path, leaves: &mut Vec<Path>, arrays: &mut Vec<Path>, maps: &mut Vec<Path>) {
    match v {
        Value::Number(_) => leaves.push(cur.clone()),
        Value::Array(a) => {
            arrays.push(cur.clone());
            for (i, x) in a.iter().enumerate() {
                cur.push(Seg::I(i));
                walk(x, cur, leaves, arrays, maps);
                cur.pop();
            }
        }
        Value::Object(m) => {
            if !m.is_empty() && m.keys().all(|k| k.chars().all(|c| c.is_ascii_digit())) {
                maps.push(cur.clone());
            }
            for (k, x) in m {
                cur.push(Seg::K(k.clone()));
                walk(x, cur, leaves, arrays, maps);
                cur.pop();
            }
        }
        _ => {}
    }
}

pub struct Shape {
    pub leaves: Vec<Path>,
    pub arrays: Vec<Path>,
    /// objects keyed by integers (HashMap<usize, _> of compressed proofs)
    pub maps: Vec<Path>,
}

pub fn shape(v: &Value) -> Shape {
    let (mut l, mut a, mut m) = (vec![], vec![], vec![]);
    walk(v, &mut vec![], &mut l, &mut a, &mut m);
    Shape { leaves: l, arrays: a, maps: m }
}

#[derive(Clone, Debug, PartialEq, Serialize, Deserialize)]
pub enum Fault {
    /// replace the number at the path: kind in {"plus1","zero","random","neighbour"}
    Elem { path: Path, kind: String, seed: u64 },
    /// list fault: kind in {"drop_last","empty","duplicate_last","swap_adjacent","drop_first"}
    List { path: Path, kind: String },
    /// integer-keyed map fault: {"remove_key","add_key","rekey"}
    Map { path: Path, kind: String, seed: u64 },
    /// set an arbitrary JSON value at a path
    Set { path: Path, value: Value },
}

impl Fault {
    pub fn kind(&self) -> String {
        match self {
            Fault::Elem { kind, .. } => format!("elem.{kind}"),
            Fault::List { kind, .. } => format!("list.{kind}"),
            Fault::Map { kind, .. } => format!("map.{kind}"),
            Fault::Set { .. } => "set".into(),
        }
    }
    pub fn path(&self) -> &Path {
        match self {
            Fault::Elem { path, .. } | Fault::List { path, .. } | Fault::Map { path, .. } | Fault::Set { path, .. } => path,
        }
    }
}

/// Is the number at this leaf a digest byte (Keccak `BytesHash`) rather than a field element?
/// Decided from the data: a byte-array leaf sits in an array of exactly 25 numbers all <= 255.
fn is_byte_leaf(root: &Value, p: &Path) -> bool {
    if p.is_empty() {
        return false;
    }
    let parent = &p[..p.len() - 1].to_vec();
    match get(root, parent) {
        Some(Value::Array(a)) => a.len() == 25 && a.iter().all(|x| x.as_u64().map_or(false, |n| n <= 255)),
        _ => false,
    }
}

/// Apply a fault. Returns false if the fault does not change the tree (trivial).
pub fn apply(root: &mut Value, f: &Fault) -> bool {
    match f {
        Fault::Elem { path, kind, seed } => {
            let byte = is_byte_leaf(root, path);
            let modulus: u128 = if byte { 256 } else { P as u128 };
            let neighbour = {
                // value of the next sibling in the same array (or previous)
                let mut q = path.clone();
                match q.pop() {
                    Some(Seg::I(i)) => {
                        let arr = get(root, &q).and_then(|a| a.as_array()).cloned().unwrap_or_default();
                        let j = if i + 1 < arr.len() { i + 1 } else if i > 0 { i - 1 } else { i };
                        arr.get(j).and_then(|x| x.as_u64())
                    }
                    _ => None,
                }
            };
            let slot = match get_mut(root, path) {
                Some(s) => s,
                None => return false,
            };
            let old = match slot.as_u64() {
                Some(o) => o,
                None => return false,
            };
            let new = match kind.as_str() {
                "plus1" => ((old as u128 + 1) % modulus) as u64,
                "zero" => 0,
                "neighbour" => neighbour.unwrap_or(old),
                _ => {
                    let mut r = Rng::new(*seed);
                    if byte {
                        r.below(256)
                    } else {
                        r.felt()
                    }
                }
            };
            if new == old {
                return false;
            }
            *slot = Value::from(new);
            true
        }
        Fault::List { path, kind } => {
            let arr = match get_mut(root, path).and_then(|a| a.as_array_mut()) {
                Some(a) => a,
                None => return false,
            };
            match kind.as_str() {
                "drop_last" => arr.pop().is_some(),
                "drop_first" => {
                    if arr.is_empty() {
                        false
                    } else {
                        arr.remove(0);
                        true
                    }
                }
                "empty" => {
                    let c = !arr.is_empty();
                    arr.clear();
                    c
                }
                "duplicate_last" => match arr.last().cloned() {
                    Some(l) => {
                        arr.push(l);
                        true
                    }
                    None => false,
                },
                "append_zero" => {
                    arr.push(Value::from(0u64));
                    true
                }
                "swap_adjacent" => {
                    if arr.len() >= 2 && arr[0] != arr[1] {
                        arr.swap(0, 1);
                        true
                    } else {
                        false
                    }
                }
                _ => false,
            }
        }
        Fault::Map { path, kind, seed } => {
            let m = match get_mut(root, path).and_then(|a| a.as_object_mut()) {
                Some(a) => a,
                None => return false,
            };
            let keys: Vec<String> = m.keys().cloned().collect();
            if keys.is_empty() {
                return false;
            }
            let mut r = Rng::new(*seed);
            let k = keys[r.usize(keys.len())].clone();
            match kind.as_str() {
                "remove_key" => m.remove(&k).is_some(),
                "add_key" => {
                    let v = m[&k].clone();
                    let nk = (0..1u64 << 20).map(|i| i.to_string()).find(|s| !m.contains_key(s)).unwrap();
                    m.insert(nk, v);
                    true
                }
                "rekey" => {
                    let v = m.remove(&k).unwrap();
                    let nk = (0..1u64 << 20).map(|i| i.to_string()).find(|s| !m.contains_key(s) && *s != k).unwrap();
                    m.insert(nk, v);
                    true
                }
                _ => false,
            }
        }
        Fault::Set { path, value } => match get_mut(root, path) {
            Some(s) => {
                let c = *s != *value;
                *s = value.clone();
                c
            }
            None => false,
        },
    }
}

/// Stratified sample of element positions: for every component, the first, the last and `extra`
/// random positions.
pub fn stratified(leaves: &[Path], r: &mut Rng, extra: usize) -> Vec<Path> {
    use std::collections::BTreeMap;
    let mut by: BTreeMap<String, Vec<usize>> = BTreeMap::new();
    for (i, p) in leaves.iter().enumerate() {
        by.entry(component(p)).or_default().push(i);
    }
    let mut out = Vec::new();
    for (_, idx) in by {
        let mut pick = vec![idx[0], *idx.last().unwrap()];
        for _ in 0..extra {
            pick.push(idx[r.usize(idx.len())]);
        }
        pick.sort();
        pick.dedup();
        for i in pick {
            out.push(leaves[i].clone());
        }
    }
    out
}

/// Value-level view of a serialised tree: field elements are compared modulo p (the library's
/// serialisation writes the raw, possibly non-canonical, u64 representation).
pub fn canonical(v: &Value) -> Value {
    match v {
        Value::Number(n) => match n.as_u64() {
            Some(x) if x >= P => Value::from(x - P),
            _ => v.clone(),
        },
        Value::Array(a) => Value::Array(a.iter().map(canonical).collect()),
        Value::Object(m) => Value::Object(m.iter().map(|(k, x)| (k.clone(), canonical(x))).collect()),
        _ => v.clone(),
    }
}
