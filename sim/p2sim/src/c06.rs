//! C06 — the in-circuit verifier accepts exactly what the native verifier accepts.
//! An aggregator node: the outer circuit embeds verification of an inner proof; it is fed valid,
//! faulted and single-check inner proofs; the native verifier is the reference model.
use plonky2::iop::generator::generate_partial_witness;
use plonky2::iop::witness::{PartialWitness, WitnessWrite};
use plonky2::plonk::circuit_builder::CircuitBuilder;
use plonky2::plonk::circuit_data::{CircuitConfig, CircuitData};
use plonky2::plonk::config::GenericConfig;
use plonky2::plonk::proof::{ProofWithPublicInputs, ProofWithPublicInputsTarget};
use plonky2::plonk::circuit_data::VerifierCircuitTarget;
use serde::{Deserialize, Serialize};
use serde_json::{json, Value};

use crate::c01::prog_shape;
use crate::c02::{byz_proof, Knobs, PFault};
use crate::c03::plan;
use crate::core::*;
use crate::mutate::*;
use crate::pipeline::*;
use crate::prog::*;
use crate::sat::*;

#[derive(Clone, Debug, Serialize, Deserialize)]
pub struct Case {
    pub st: Statement,
    pub sched: Sched,
    pub entropy: Entropy,
    pub fault_seed: u64,
    /// "poseidon" | "keccak": hash configuration of the OUTER circuit
    pub outer_hash: String,
    pub message_faults: usize,
    #[serde(default)]
    pub only: Option<InnerFault>,
}

#[derive(Clone, Debug, PartialEq, Serialize, Deserialize)]
pub enum InnerFault {
    Honest,
    Message(Fault),
    Prover(PFault),
    /// Byzantine strategy: in query round `round`, FRI step `step`, two coset evaluations that are not the queried one
    /// are shifted along the kernel of the folding map (the interpolated value at beta is unchanged): only the
    /// Merkle opening of that coset can notice.
    KernelTamper { round: usize, step: usize },
}

impl InnerFault {
    pub fn kind(&self) -> String {
        match self {
            InnerFault::Honest => "honest".into(),
            InnerFault::Message(m) => format!("message.{}.{}", m.kind(), component(m.path()).split('/').take(4).collect::<Vec<_>>().join("/")),
            InnerFault::Prover(p) => format!("prover.{}", p.kind()),
            InnerFault::KernelTamper { .. } => "strategy.fri_coset_kernel_tamper".into(),
        }
    }
}

pub fn gen(rng: &mut Rng, tier: Tier) -> Value {
    let mut st = draw_statement(rng, 10, false, true);
    let mut r = rng.sub("c06");
    // recursion-friendly inner configuration: Poseidon, few queries (the outer circuit grows with them)
    st.cfg.hash = "poseidon".into();
    st.cfg.num_query_rounds = r.range(2, 8);
    st.cfg.pow_bits = *r.pick(&[0u32, 3, 8]);
    st.cfg.rate_bits = 3;
    st.cfg.security_bits = st.cfg.security_bits.min(st.cfg.num_query_rounds * st.cfg.rate_bits);
    st.cfg.strategy = match r.below(3) {
        0 => Strat::ConstantArityBits(4, 5),
        1 => Strat::ConstantArityBits(r.range(1, 3), r.range(0, 3)),
        _ => Strat::Fixed((0..r.range(0, 2)).map(|_| r.range(1, 3)).collect()),
    };
    if st.cfg.zero_knowledge && matches!(st.cfg.strategy, Strat::Fixed(_)) {
        // not an admissible zk configuration (see Cfg::draw: the builder's blinding fixed point diverges)
        st.cfg.strategy = Strat::ConstantArityBits(r.range(1, 3), r.range(0, 2));
    }
    let mut rs = rng.sub("schedule");
    let mut re = rng.sub("entropy");
    serde_json::to_value(Case {
        st,
        sched: Sched::draw(&mut rs),
        entropy: Entropy::draw(&mut re),
        fault_seed: r.u64(),
        outer_hash: if r.chance(1, 4) { "keccak".into() } else { "poseidon".into() },
        message_faults: if tier == Tier::Quick { 24 } else { 60 },
        only: None,
    })
    .unwrap()
}

pub struct Outer<OC: GenericConfig<D, F = F>> {
    pub data: CircuitData<F, OC, D>,
    pub pt: ProofWithPublicInputsTarget<D>,
    pub vt: VerifierCircuitTarget,
    pub ctx: SatCtx,
}

/// The aggregator's circuit for one inner shape.
pub fn build_outer<OC: GenericConfig<D, F = F>>(inner: &CircuitData<F, PC, D>) -> Result<Outer<OC>, String> {
    guarded(|| {
        let mut b = CircuitBuilder::<F, D>::new(CircuitConfig::standard_recursion_config());
        let pt = b.add_virtual_proof_with_pis(&inner.common);
        let vt = b.add_virtual_verifier_data(inner.common.config.fri_config.cap_height);
        b.verify_proof::<PC>(&pt, &vt, &inner.common);
        b.register_public_inputs(&pt.public_inputs);
        let data = b.build::<OC>();
        let ctx = SatCtx::new(&data);
        Outer { data, pt, vt, ctx }
    })
}

/// Does the outer circuit accept the assignment derived from this inner proof through the
/// library's own assignment and witness-generation routines?
pub fn outer_accepts<OC: GenericConfig<D, F = F>>(o: &Outer<OC>, inner: &CircuitData<F, PC, D>, p: &ProofWithPublicInputs<F, PC, D>, entropy: &Entropy) -> (bool, String) {
    let r = guarded(|| {
        let mut pw = PartialWitness::new();
        pw.set_proof_with_pis_target(&o.pt, p).map_err(|e| format!("assignment: {e}"))?;
        pw.set_verifier_data_target(&o.vt, &inner.verifier_only).map_err(|e| format!("assignment: {e}"))?;
        entropy.arm();
        let w = generate_partial_witness(pw, &o.data.prover_only, &o.data.common).map_err(|e| format!("generation: {}", e.to_string().chars().take(80).collect::<String>()))?;
        let pis = public_inputs_of(&o.data, &w);
        let mut wl = w.clone();
        plonky2::plonk::prover::set_lookup_wires(&o.data.prover_only, &o.data.common, &mut wl).map_err(|e| format!("lookup wires: {e}"))?;
        Ok::<Sat, String>(o.ctx.check(&o.data, &wl.full_witness(), &pis))
    });
    match r {
        Ok(Ok(Sat::Ok)) => (true, "satisfied".into()),
        Ok(Ok(s)) => (false, format!("outer constraints violated: {}", s.kind())),
        Ok(Err(e)) => (false, e),
        Err(e) => (false, format!("panic: {}", e.chars().take(80).collect::<String>())),
    }
}

fn viol(rep: &mut Report, case: &Case, f: &InnerFault, oracle: &str, detail: String) {
    let mut c = case.clone();
    c.only = Some(f.clone());
    rep.violation("C06", oracle, &format!("C06|{oracle}|{}", f.kind()), detail, serde_json::to_value(&c).unwrap());
}

fn rev_bits(x: usize, bits: usize) -> usize {
    let mut r = 0;
    for i in 0..bits {
        if x >> i & 1 == 1 {
            r |= 1 << (bits - 1 - i);
        }
    }
    r
}

/// The proof with two evaluations of one FRI coset shifted so that the fold at beta is unchanged.
fn kernel_tamper(data: &CircuitData<F, PC, D>, proof: &ProofWithPublicInputs<F, PC, D>, round: usize, step: usize) -> Option<ProofWithPublicInputs<F, PC, D>> {
    use plonky2::field::extension::Extendable;
    use plonky2::field::types::Field;
    type FE = <F as Extendable<D>>::Extension;
    let common = &data.common;
    let ch = guarded(|| proof.get_challenges(proof.get_public_inputs_hash(), &data.verifier_only.circuit_digest, common)).ok()?.ok()?;
    let fc = &ch.fri_challenges;
    let arities = &common.fri_params.reduction_arity_bits;
    if round >= fc.fri_query_indices.len() || step >= arities.len() || arities[step] < 2 {
        return None;
    }
    let lde_bits = common.fri_params.lde_bits();
    let mut idx = fc.fri_query_indices[round];
    let mut x: F = F::MULTIPLICATIVE_GROUP_GENERATOR * F::primitive_root_of_unity(lde_bits).exp_u64(rev_bits(idx, lde_bits) as u64);
    for a in &arities[..step] {
        idx >>= *a;
        x = x.exp_power_of_2(*a);
    }
    let a = arities[step];
    let arity = 1usize << a;
    let within = idx & (arity - 1);
    let g = F::primitive_root_of_unity(a);
    let coset_start = x * g.exp_u64((arity - rev_bits(within, a)) as u64);
    let point = |j: usize| -> FE { FE::from(coset_start * g.exp_u64(rev_bits(j, a) as u64)) };
    let beta = fc.fri_betas[step];
    let lagrange = |j: usize| -> FE {
        let pj = point(j);
        let mut num = FE::ONE;
        let mut den = FE::ONE;
        for k in 0..arity {
            if k != j {
                num *= beta - point(k);
                den *= pj - point(k);
            }
        }
        num * den.inverse()
    };
    let others: Vec<usize> = (0..arity).filter(|j| *j != within).collect();
    let (ja, jb) = (others[0], others[others.len() - 1]);
    if ja == jb {
        return None;
    }
    let (la, lb) = (lagrange(ja), lagrange(jb));
    if la == FE::ZERO || lb == FE::ZERO {
        return None;
    }
    let mut p = proof.clone();
    let evals = &mut p.proof.opening_proof.query_round_proofs[round].steps[step].evals;
    if evals.len() != arity {
        return None;
    }
    evals[ja] += lb;
    evals[jb] -= la;
    Some(p)
}

fn exec_o<OC: GenericConfig<D, F = F>>(case: &Case, rep: &mut Report) {
    let (built, proof) = match honest_accepted::<PC>(&case.st, &case.sched, &case.entropy, rep) {
        Some(x) => x,
        None => return,
    };
    if built.data.common.degree_bits() > 9 {
        rep.skip("inner circuit too large for the quick aggregator");
        return;
    }
    let outer = match build_outer::<OC>(&built.data) {
        Ok(o) => o,
        Err(e) => {
            rep.case(prog_shape(&case.st.prog), true);
            return viol(rep, case, &InnerFault::Honest, "outer_circuit_build_panicked", e);
        }
    };
    let base_sig = prog_shape(&case.st.prog) ^ hash_str(&built.cfg.class()) ^ hash_str(&case.outer_hash) ^ hash_value(&json!(case.st.prog.inputs));
    rep.probe(&format!("c06.outer_degree_bits.{}", outer.data.common.degree_bits()));
    rep.probe(&format!("c06.outer_hash.{}", case.outer_hash));
    if !case.st.prog.tables.is_empty() {
        rep.probe("c06.inner_with_lookups");
    }
    if built.cfg.zero_knowledge {
        rep.probe("c06.inner_zk");
    }
    for g in &outer.data.common.gates {
        rep.probe(&format!("c06.outer_gate.{}", g.0.id().split(|ch| ch == ' ' || ch == '{' || ch == '<' || ch == '(').next().unwrap()));
    }
    let mut r = Rng::new(case.fault_seed);
    // ---- the inner proofs handed to the aggregator
    let mut plan_f: Vec<InnerFault> = Vec::new();
    let tree = serde_json::to_value(&proof).unwrap();
    if let Some(f) = &case.only {
        plan_f.push(f.clone());
    } else {
        plan_f.push(InnerFault::Honest);
        let mut m = plan(&tree, &mut r, false, false);
        r.shuffle(&mut m);
        // keep every component represented: element faults first, a few list faults
        let (elems, lists): (Vec<Fault>, Vec<Fault>) = m.into_iter().partition(|f| matches!(f, Fault::Elem { .. }));
        for f in elems.into_iter().take(case.message_faults) {
            plan_f.push(InnerFault::Message(f));
        }
        for f in lists.into_iter().take(12) {
            plan_f.push(InnerFault::Message(f));
        }
        // false statements and single-check proofs from the Byzantine prover
        let (n, nw) = (built.data.common.degree(), built.data.common.config.num_wires);
        for _ in 0..2 {
            plan_f.push(InnerFault::Prover(PFault { cell: Some((r.usize(n * nw.min(80)), "plus1".into(), 0)), ..Default::default() }));
        }
        // kernel tampers: every FRI step of arity >= 4, first and last query round; steps whose layer lies entirely in the cap first
        {
            let fp = &built.data.common.fri_params;
            let q = fp.config.num_query_rounds;
            let mut steps: Vec<usize> = (0..fp.reduction_arity_bits.len()).filter(|s| fp.reduction_arity_bits[*s] >= 2).collect();
            steps.sort_by_key(|s| proof.proof.opening_proof.query_round_proofs[0].steps[*s].merkle_proof.siblings.len());
            for s in steps.into_iter().take(3) {
                if proof.proof.opening_proof.query_round_proofs[0].steps[s].merkle_proof.siblings.is_empty() {
                    rep.probe("c06.fri_layer_entirely_in_cap");
                }
                plan_f.push(InnerFault::KernelTamper { round: 0, step: s });
                if q > 1 {
                    plan_f.push(InnerFault::KernelTamper { round: q - 1, step: s });
                }
            }
        }
        if cfg!(feature = "hooks") {
            plan_f.push(InnerFault::Prover(PFault { knobs: Knobs { z_init: Some(0), ..Default::default() }, ..Default::default() }));
            for j in 0..built.data.common.config.num_challenges {
                plan_f.push(InnerFault::Prover(PFault { knobs: Knobs { quotient_delta: Some((j, r.usize(1 << 20), 1 + r.below(1 << 20))), ..Default::default() }, ..Default::default() }));
            }
            if built.cfg.pow_bits > 0 {
                plan_f.push(InnerFault::Prover(PFault { knobs: Knobs { pow_witness: Some(r.felt()), ..Default::default() }, ..Default::default() }));
            }
            plan_f.push(InnerFault::Prover(PFault { knobs: Knobs { final_poly_delta: Some((r.usize(1 << 10), 1 + r.below(1 << 20))), ..Default::default() }, ..Default::default() }));
        }
    }
    let mut proved_outer = false;
    for f in &plan_f {
        let inner_proof: ProofWithPublicInputs<F, PC, D> = match f {
            InnerFault::Honest => proof.clone(),
            InnerFault::Message(m) => {
                let mut t = tree.clone();
                if !apply(&mut t, m) {
                    continue;
                }
                match serde_json::from_value(t) {
                    Ok(p) => p,
                    Err(_) => continue,
                }
            }
            InnerFault::Prover(pf) => match byz_proof::<PC>(&built, &case.st, &case.sched, &case.entropy, pf) {
                Some(p) => p,
                None => continue,
            },
            InnerFault::KernelTamper { round, step } => match kernel_tamper(&built.data, &proof, *round, *step) {
                Some(p) => p,
                None => continue,
            },
        };
        let native_res = built.verify(&inner_proof);
        if let (InnerFault::KernelTamper { .. }, Err(e)) = (f, &native_res) {
            // self-validation of the strategy: the fold is unchanged, so the only native check that can fail is the Merkle opening
            rep.probe(if e.to_lowercase().contains("merkle") { "c06.kernel_tamper.natively_rejected_by_merkle_check" } else { "c06.kernel_tamper.natively_rejected_by_another_check" });
        }
        let native = native_res.is_ok();
        let (outer_ok, why) = outer_accepts(&outer, &built.data, &inner_proof, &case.entropy);
        rep.fault(&f.kind().split('.').take(3).collect::<Vec<_>>().join("."));
        rep.case(base_sig ^ hash_value(&serde_json::to_value(f).unwrap()), *f == InnerFault::Honest || inner_proof != proof);
        rep.probe(if native { "c06.native_accepts" } else { "c06.native_rejects" });
        if native != outer_ok {
            viol(rep, case, f, if native { "native_accepts_but_circuit_rejects" } else { "native_rejects_but_circuit_accepts" }, format!("{}: outer {}", f.kind(), why));
            continue;
        }
        // agreeing accept: the outer proof is provable, verifies and re-exposes the inner public inputs
        if native && !proved_outer && case.only.is_none() {
            proved_outer = true;
            let mut pw = PartialWitness::new();
            pw.set_proof_with_pis_target(&outer.pt, &inner_proof).unwrap();
            pw.set_verifier_data_target(&outer.vt, &built.data.verifier_only).unwrap();
            arm(&case.sched, &case.entropy);
            rep.case(base_sig ^ hash_str("outer_prove"), true);
            match guarded(|| outer.data.prove(pw)) {
                Ok(Ok(op)) => {
                    if !matches!(guarded(|| outer.data.verify(op.clone())), Ok(Ok(()))) {
                        viol(rep, case, f, "outer_proof_of_valid_inner_proof_rejected", String::new());
                    } else if op.public_inputs != inner_proof.public_inputs {
                        viol(rep, case, f, "outer_proof_does_not_re_expose_inner_public_inputs", String::new());
                    }
                }
                other => viol(rep, case, f, "outer_prove_failed_for_valid_inner_proof", format!("{:?}", other.map(|r| r.map(|_| ()).map_err(|e| e.to_string())))),
            }
            rep.absorb_seams();
        }
    }
    rep.sample(json!({"inner_config": built.cfg.class(), "inner_degree_bits": built.data.common.degree_bits(), "outer_degree_bits": outer.data.common.degree_bits(), "outer_hash": case.outer_hash,
        "inner_proofs": plan_f.len(), "example": plan_f.get(plan_f.len() / 2).map(|f| f.kind())}));
}

pub fn exec(case: &Value, rep: &mut Report) {
    let case: Case = serde_json::from_value(case.clone()).expect("malformed C06 case");
    if case.outer_hash == "keccak" {
        exec_o::<KC>(&case, rep)
    } else {
        exec_o::<PC>(&case, rep)
    }
}

pub fn shrink(case: &Value) -> Vec<Value> {
    let c: Case = serde_json::from_value(case.clone()).unwrap();
    let mut out = Vec::new();
    if c.sched.workers > 1 {
        let mut d = c.clone();
        d.sched = Sched::sequential();
        out.push(d);
    }
    if c.outer_hash == "keccak" {
        let mut d = c.clone();
        d.outer_hash = "poseidon".into();
        out.push(d);
    }
    let positional = matches!(&c.only, Some(InnerFault::Prover(p)) if p.cell.is_some());
    if !positional {
        for st in shrink_statement(&c.st) {
            if st.cfg.hash != "poseidon" {
                continue;
            }
            let mut d = c.clone();
            d.st = st;
            out.push(d);
        }
    }
    out.into_iter().map(|d| serde_json::to_value(d).unwrap()).collect()
}
