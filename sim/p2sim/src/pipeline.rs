//! Shared pipeline: configuration generator (DESIGN §3.2), circuit construction from a program,
//! honest proving under the armed seams.
use plonky2::fri::reduction_strategies::FriReductionStrategy;
use plonky2::fri::FriConfig;
use plonky2::hash::hash_types::RichField;
use plonky2::iop::witness::PartialWitness;
use plonky2::plonk::circuit_builder::CircuitBuilder;
use plonky2::plonk::circuit_data::{CircuitConfig, CircuitData};
use plonky2::plonk::config::{GenericConfig, KeccakGoldilocksConfig, PoseidonGoldilocksConfig};
use plonky2::plonk::proof::ProofWithPublicInputs;
use serde::{Deserialize, Serialize};

use crate::core::*;
use crate::prog::*;

pub type PC = PoseidonGoldilocksConfig;
pub type KC = KeccakGoldilocksConfig;

#[derive(Clone, Debug, PartialEq, Serialize, Deserialize)]
pub enum Strat {
    Fixed(Vec<usize>),
    ConstantArityBits(usize, usize),
    MinSize(Option<usize>),
}

#[derive(Clone, Debug, PartialEq, Serialize, Deserialize)]
pub struct Cfg {
    pub num_wires: usize,
    pub num_routed_wires: usize,
    pub num_constants: usize,
    pub use_base_arithmetic_gate: bool,
    pub security_bits: usize,
    pub num_challenges: usize,
    pub zero_knowledge: bool,
    pub max_quotient_degree_factor: usize,
    pub rate_bits: usize,
    pub cap_height: usize,
    pub pow_bits: u32,
    pub strategy: Strat,
    pub num_query_rounds: usize,
    /// "poseidon" | "keccak"
    pub hash: String,
}

impl Cfg {
    pub fn standard() -> Cfg {
        Cfg {
            num_wires: 135,
            num_routed_wires: 80,
            num_constants: 2,
            use_base_arithmetic_gate: true,
            security_bits: 100,
            num_challenges: 2,
            zero_knowledge: false,
            max_quotient_degree_factor: 8,
            rate_bits: 3,
            cap_height: 4,
            pow_bits: 16,
            strategy: Strat::ConstantArityBits(4, 5),
            num_query_rounds: 28,
            hash: "poseidon".into(),
        }
    }

    /// Swarm-style draw of an admissible configuration. `faulting`: enforce the R3 floor
    /// (num_query_rounds * lde_bits >= 64 is checked by the caller once the degree is known; here
    /// we keep queries >= 8 so that it holds for every degree >= 2^5 with rate_bits >= 3).
    pub fn draw(r: &mut Rng, faulting: bool, recursion_friendly: bool) -> Cfg {
        let mut c = Cfg::standard();
        let (w, rw) = *r.pick(&[(135, 80), (135, 80), (136, 80), (143, 80), (143, 100), (234, 80), (200, 120)]);
        c.num_wires = w;
        c.num_routed_wires = rw;
        c.num_constants = r.range(2, 4);
        c.use_base_arithmetic_gate = r.chance(3, 4);
        c.num_challenges = r.range(1, 3);
        c.zero_knowledge = r.chance(1, 4);
        c.rate_bits = *r.pick(&[3, 3, 3, 4]);
        c.cap_height = r.range(0, 4);
        c.pow_bits = *r.pick(&[0, 1, 2, 3, 5, 8, 8, 10, 16]);
        c.strategy = match r.below(6) {
            0 => Strat::Fixed((0..r.range(0, 3)).map(|_| r.range(1, 3)).collect()),
            1 => Strat::MinSize(None),
            2 => Strat::MinSize(Some(r.range(1, 4))),
            3 => Strat::ConstantArityBits(4, 5),
            _ => Strat::ConstantArityBits(r.range(1, 4), r.range(0, 5)),
        };
        let qmin = if faulting { 8 } else { 1 };
        c.num_query_rounds = match r.below(5) {
            0 => qmin,
            1 => 28,
            _ => r.range(qmin, 28),
        };
        let have = (c.num_query_rounds * c.rate_bits + c.pow_bits as usize).min(128);
        c.security_bits = match r.below(3) {
            0 => have,
            1 => have / 2,
            _ => r.range(0, have),
        };
        c.hash = if !recursion_friendly && r.chance(1, 4) { "keccak".into() } else { "poseidon".into() };
        if recursion_friendly {
            c.zero_knowledge = r.chance(1, 6);
        }
        if c.zero_knowledge {
            // blinding rows grow with queries x (folding points + final polynomial): keep zk circuits small
            c.num_query_rounds = if faulting { 8 } else { r.range(1, 3) };
            // (a Fixed/MinSize schedule leaves a final polynomial proportional to the degree, and the
            // builder's blinding fixed point then never converges: not an admissible zk configuration)
            c.strategy = Strat::ConstantArityBits(r.range(1, 3), r.range(0, 2));
            c.rate_bits = 3;
            c.num_challenges = r.range(1, 2);
            let have = (c.num_query_rounds * c.rate_bits + c.pow_bits as usize).min(128);
            c.security_bits = c.security_bits.min(have);
        }
        c
    }

    pub fn to_circuit_config(&self) -> CircuitConfig {
        CircuitConfig {
            num_wires: self.num_wires,
            num_routed_wires: self.num_routed_wires,
            num_constants: self.num_constants,
            use_base_arithmetic_gate: self.use_base_arithmetic_gate,
            security_bits: self.security_bits,
            num_challenges: self.num_challenges,
            zero_knowledge: self.zero_knowledge,
            max_quotient_degree_factor: self.max_quotient_degree_factor,
            fri_config: FriConfig {
                rate_bits: self.rate_bits,
                cap_height: self.cap_height,
                proof_of_work_bits: self.pow_bits,
                reduction_strategy: match &self.strategy {
                    Strat::Fixed(v) => FriReductionStrategy::Fixed(v.clone()),
                    Strat::ConstantArityBits(a, b) => FriReductionStrategy::ConstantArityBits(*a, *b),
                    Strat::MinSize(m) => FriReductionStrategy::MinSize(*m),
                },
                num_query_rounds: self.num_query_rounds,
            },
        }
    }

    pub fn class(&self) -> String {
        format!(
            "w{}/{} c{} b{} ch{} zk{} r{} cap{} pow{} {:?} q{} {}",
            self.num_wires, self.num_routed_wires, self.num_constants, self.use_base_arithmetic_gate as u8, self.num_challenges,
            self.zero_knowledge as u8, self.rate_bits, self.cap_height, self.pow_bits, self.strategy, self.num_query_rounds, self.hash
        )
    }
}

/// A program + inputs + configuration: the honest statement of a scenario.
#[derive(Clone, Debug, PartialEq, Serialize, Deserialize)]
pub struct Statement {
    pub prog: Program,
    pub cfg: Cfg,
}

pub struct Built<C: GenericConfig<D, F = F>> {
    pub data: CircuitData<F, C, D>,
    pub real: Realised,
    pub vals: Vec<Val>,
    /// the configuration actually used (cap height / arities adjusted to admissibility)
    pub cfg: Cfg,
}

pub enum BuildOutcome<C: GenericConfig<D, F = F>> {
    Ok(Built<C>),
    /// the reference evaluator rejects the inputs (a precondition of some op fails)
    Unsat(String),
    Panicked(String),
}

/// Build the circuit. A panic with the documented message "FRI total reduction arity is too
/// large" is a caller precondition: the configuration is adjusted (lower cap, shorter arity
/// list) and the build retried; any other panic is reported.
pub fn build<C: GenericConfig<D, F = F>>(st: &Statement) -> BuildOutcome<C>
where
    F: RichField,
{
    let vals = match st.prog.eval(&st.prog.inputs) {
        Ok(v) => v,
        Err(EvalError::Precondition(s)) => return BuildOutcome::Unsat(s),
    };
    let mut cfg = st.cfg.clone();
    for _ in 0..12 {
        let cc = cfg.to_circuit_config();
        let r = guarded(|| {
            let mut b = CircuitBuilder::<F, D>::new(cc);
            let real = st.prog.realise(&mut b, &vals);
            let data = b.build::<C>();
            (data, real)
        });
        match r {
            Ok((data, _)) if data.common.fri_params.total_arities() > data.common.degree_bits() => {
                // a Fixed schedule that folds below degree 1 is not an admissible configuration
                match &mut cfg.strategy {
                    Strat::Fixed(v) if !v.is_empty() => {
                        v.pop();
                    }
                    _ => return BuildOutcome::Panicked("strategy folds below degree 1".into()),
                }
            }
            Ok((data, real)) => return BuildOutcome::Ok(Built { data, real, vals, cfg }),
            Err(e) if e.contains("FRI total reduction arity is too large") => {
                match &mut cfg.strategy {
                    Strat::Fixed(v) if !v.is_empty() => {
                        v.pop();
                    }
                    _ if cfg.cap_height > 0 => cfg.cap_height -= 1,
                    _ => return BuildOutcome::Panicked(e),
                }
            }
            Err(e) if e.contains("degree_bits >= arity_bits") => {
                // ConstantArityBits with an arity larger than the degree: a documented assert of
                // the strategy, i.e. a caller precondition
                match &mut cfg.strategy {
                    Strat::ConstantArityBits(a, _) if *a > 1 => *a -= 1,
                    _ => return BuildOutcome::Panicked(e),
                }
            }
            Err(e) => return BuildOutcome::Panicked(e),
        }
    }
    BuildOutcome::Panicked("could not find an admissible cap height".into())
}

impl<C: GenericConfig<D, F = F>> Built<C> {
    pub fn honest_witness(&self, st: &Statement) -> PartialWitness<F> {
        st.prog.witness(&self.real, &st.prog.inputs, &self.vals)
    }
    /// prove under the currently armed seams
    pub fn prove(&self, pw: PartialWitness<F>) -> Result<ProofWithPublicInputs<F, C, D>, String> {
        match guarded(|| self.data.prove(pw)) {
            Ok(Ok(p)) => Ok(p),
            Ok(Err(e)) => Err(format!("Err: {e}")),
            Err(e) => Err(format!("panic: {e}")),
        }
    }
    pub fn verify(&self, p: &ProofWithPublicInputs<F, C, D>) -> Result<(), String> {
        match guarded(|| self.data.verify(p.clone())) {
            Ok(Ok(())) => Ok(()),
            Ok(Err(e)) => Err(format!("Err: {e}")),
            Err(e) => Err(format!("panic: {e}")),
        }
    }
    pub fn lde_bits(&self) -> usize {
        self.data.common.fri_params.lde_bits()
    }
}

/// Draw a whole statement.
pub fn draw_statement(r: &mut Rng, max_ops: usize, faulting: bool, recursion_friendly: bool) -> Statement {
    draw_statement_with(r, max_ops, faulting, recursion_friendly, true)
}

/// `default_gates_only`: restrict to gates registered in `DefaultGateSerializer`.
pub fn draw_statement_with(r: &mut Rng, max_ops: usize, faulting: bool, recursion_friendly: bool, split_base: bool) -> Statement {
    let mut rc = r.sub("config");
    let cfg = Cfg::draw(&mut rc, faulting, recursion_friendly);
    let mut rp = r.sub("program");
    let mut fam = Families::draw(&mut rp);
    fam.split_base = split_base;
    let prog = gen_program(&mut rp, &cfg.to_circuit_config(), &fam, max_ops);
    Statement { prog, cfg }
}

/// Dispatch on the hash configuration.
#[macro_export]
macro_rules! with_config {
    ($hash:expr, $f:ident, $($args:expr),*) => {
        if $hash == "keccak" { $f::<$crate::pipeline::KC>($($args),*) } else { $f::<$crate::pipeline::PC>($($args),*) }
    };
}

fn op_operands_mut(op: &mut Op) -> Vec<&mut usize> {
    use Op::*;
    match op {
        Const(_) | ConstNC(_) => vec![],
        Add(a, b) | Sub(a, b) | Mul(a, b) | Div(a, b) | ExtNew(a, b) | AddE(a, b) | SubE(a, b) | MulE(a, b) | ScalarMulE(a, b)
        | DivE(a, b) | And(a, b) | Or(a, b) | IsEqual(a, b) | Connect(a, b) => vec![a, b],
        MulAdd(a, b, c) | MulSub(a, b, c) | MulAddE(a, b, c) | Select(a, b, c) | SelectE(a, b, c) | CondAssertEq(a, b, c) => vec![a, b, c],
        Arith(_, _, a, b, c) | ArithE(_, _, a, b, c) => vec![a, b, c],
        Neg(a) | Square(a) | Cube(a) | Inverse(a) | InvE(a) | SquareE(a) | Not(a) | AssertBool(a) | AssertZero(a) | AssertOne(a) => vec![a],
        ExpU64(a, _) | ExpPow2(a, _) | AddConst(a, _) | MulConst(_, a) | ExtGet(a, _) | ExpU64E(a, _) | SplitLe(a, _) | RangeCheck(a, _)
        | HashGet(a, _) => vec![a],
        SplitBase(a, _, _) | LowBits(a, _, _) | SplitLowHigh(a, _, _) => vec![a],
        AddMany(xs) | MulMany(xs) | MulManyE(xs) | LeSum(xs) | Hash(xs) | HashOrNoop(xs) | HashM(xs, _, _) => xs.iter_mut().collect(),
        InnerProductE(_, s, ps) => {
            let mut v = vec![s];
            for (a, b) in ps.iter_mut() {
                v.push(a);
                v.push(b);
            }
            v
        }
        ReduceE(a, xs) | ReduceBase(a, xs) | RandomAccess(a, xs) | RandomAccessE(a, xs) | ExpFromBits(a, xs) => {
            let mut v = vec![a];
            v.extend(xs.iter_mut());
            v
        }
        Exp(a, b, _) => vec![a, b],
        MerkleVerify(l, bts, _, _) => l.iter_mut().chain(bts.iter_mut()).collect(),
        Lookup(_, a) => vec![a],
    }
}

/// Remove op `k` if nothing later depends on its results; value indices are renumbered.
pub fn remove_op(p: &Program, k: usize) -> Option<Program> {
    // result ranges per op
    let mut v = p.inputs.clone();
    let mut ranges = Vec::new();
    for op in &p.ops {
        let before = v.len();
        p.eval_op(op, &mut v).ok()?;
        ranges.push((before, v.len()));
    }
    let (lo, hi) = ranges[k];
    let width = hi - lo;
    let mut q = p.clone();
    q.ops.remove(k);
    for op in q.ops.iter_mut().skip(k) {
        for o in op_operands_mut(op) {
            if *o >= lo && *o < hi {
                return None;
            }
            if *o >= hi {
                *o -= width;
            }
        }
    }
    q.outputs = p.outputs.iter().filter(|&&o| o < lo || o >= hi).map(|&o| if o >= hi { o - width } else { o }).collect();
    // tables must stay used
    for t in 0..q.tables.len() {
        if !q.ops.iter().any(|op| matches!(op, Op::Lookup(tt, _) if *tt == t)) {
            return None;
        }
    }
    Some(q)
}

/// Simpler variants of a statement, most aggressive first.
pub fn shrink_statement(st: &Statement) -> Vec<Statement> {
    let mut out = Vec::new();
    let n = st.prog.ops.len();
    // drop the second half / single ops from the end
    if n > 1 {
        let mut p = st.prog.clone();
        let mut ok = true;
        for k in (n / 2..n).rev() {
            match remove_op(&p, k) {
                Some(q) => p = q,
                None => {
                    ok = false;
                    break;
                }
            }
        }
        if ok {
            out.push(Statement { prog: p, cfg: st.cfg.clone() });
        }
    }
    for k in (0..n).rev() {
        if let Some(q) = remove_op(&st.prog, k) {
            out.push(Statement { prog: q, cfg: st.cfg.clone() });
        }
    }
    // fewer outputs
    if st.prog.outputs.len() > 1 {
        let mut p = st.prog.clone();
        p.outputs = vec![*st.prog.outputs.last().unwrap()];
        out.push(Statement { prog: p, cfg: st.cfg.clone() });
    }
    // simpler inputs
    for i in 0..st.prog.inputs.len() {
        let simple = match &st.prog.inputs[i] {
            Val::F(x) if *x > 1 => Some(Val::F(1)),
            Val::E(x) if *x != [1, 0] => Some(Val::E([1, 0])),
            Val::H(x) if *x != [0, 0, 0, 0] => Some(Val::H([0, 0, 0, 0])),
            _ => None,
        };
        if let Some(s) = simple {
            let mut p = st.prog.clone();
            p.inputs[i] = s;
            out.push(Statement { prog: p, cfg: st.cfg.clone() });
        }
    }
    // configuration fields back to the standard configuration, one by one
    let std = Cfg::standard();
    macro_rules! reset {
        ($f:ident) => {
            if st.cfg.$f != std.$f {
                let mut c = st.cfg.clone();
                c.$f = std.$f.clone();
                out.push(Statement { prog: st.prog.clone(), cfg: c });
            }
        };
    }
    reset!(hash);
    reset!(zero_knowledge);
    reset!(num_wires);
    reset!(num_routed_wires);
    reset!(num_constants);
    reset!(use_base_arithmetic_gate);
    reset!(num_challenges);
    reset!(strategy);
    reset!(cap_height);
    reset!(rate_bits);
    if st.cfg.pow_bits != 0 {
        let mut c = st.cfg.clone();
        c.pow_bits = 0;
        c.security_bits = c.security_bits.min(c.num_query_rounds * c.rate_bits);
        out.push(Statement { prog: st.prog.clone(), cfg: c });
    }
    if st.cfg.security_bits != 0 {
        let mut c = st.cfg.clone();
        c.security_bits = 0;
        out.push(Statement { prog: st.prog.clone(), cfg: c });
    }
    out
}

/// Build + honest prove + check that the honest proof is accepted (the precondition of every
/// message-fault check). `None` = the base scenario is not usable (reason recorded as a skip).
pub fn honest_accepted<C: GenericConfig<D, F = F>>(
    st: &Statement,
    sched: &Sched,
    entropy: &Entropy,
    rep: &mut Report,
) -> Option<(Built<C>, ProofWithPublicInputs<F, C, D>)> {
    let built = match build::<C>(st) {
        BuildOutcome::Ok(b) => b,
        BuildOutcome::Unsat(s) => {
            rep.skip(&format!("unsat:{s}"));
            return None;
        }
        BuildOutcome::Panicked(e) => {
            rep.skip(&format!("base:build_panicked: {}", e.chars().take(70).collect::<String>()));
            return None;
        }
    };
    arm(sched, entropy);
    let proof = built.prove(built.honest_witness(st));
    rep.absorb_seams();
    let proof = match proof {
        Ok(p) => p,
        Err(_) => {
            rep.skip("base:honest_prove_failed (reported by C01)");
            return None;
        }
    };
    if built.verify(&proof).is_err() {
        rep.skip("base:honest_proof_rejected (reported by C01)");
        return None;
    }
    Some((built, proof))
}

/// `verify` with explicit verifier data (the crate-level function is private).
pub fn verify_with<C: GenericConfig<D, F = F>>(
    proof: ProofWithPublicInputs<F, C, D>,
    vo: &plonky2::plonk::circuit_data::VerifierOnlyCircuitData<C, D>,
    common: &plonky2::plonk::circuit_data::CommonCircuitData<F, D>,
) -> anyhow::Result<()> {
    let vd = plonky2::plonk::circuit_data::VerifierCircuitData { verifier_only: vo.clone(), common: common.clone() };
    vd.verify(proof)
}
