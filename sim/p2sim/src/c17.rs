//! C17 — binary encodings round-trip and restored circuits are interchangeable.
//! Simulated as crash and restart from durable state: a setup node writes its state through the
//! `Write` seam, "crashes"; a fresh node restores from bytes and must be interchangeable.
//! I/O faults: write error after k bytes (full disk), truncated input at k (torn / short read).
use plonky2::iop::generator::generate_partial_witness;
use plonky2::plonk::circuit_data::{CircuitData, CommonCircuitData, ProverCircuitData, VerifierCircuitData, VerifierOnlyCircuitData};
use plonky2::plonk::config::GenericConfig;
use plonky2::plonk::proof::{CompressedProofWithPublicInputs, ProofWithPublicInputs};
use plonky2::util::serialization::{
    Buffer, DefaultGateSerializer, DefaultGeneratorSerializer, GateSerializer, IoError, IoResult, WitnessGeneratorSerializer, Write,
};
use plonky2::gates::gate::GateRef;
use plonky2::iop::generator::WitnessGeneratorRef;
use plonky2::field::extension::Extendable;
use plonky2::hash::hash_types::RichField;
use serde::{Deserialize, Serialize};
use serde_json::{json, Value};

use crate::c01::prog_shape;
use crate::core::*;
use crate::pipeline::*;
use crate::prog::*;

#[derive(Clone, Debug, Serialize, Deserialize)]
pub struct Case {
    pub st: Statement,
    pub sched: Sched,
    pub entropy: Entropy,
    pub fault_seed: u64,
    /// try every prefix length of every encoding (thorough, small circuits)
    pub every_prefix: bool,
    /// also save / restore an aggregator circuit that verifies this circuit's proof:
    /// 0 = no, 1 = verify_proof, 2 = conditionally_verify_proof_or_dummy (DummyProofGenerator)
    #[serde(default)]
    pub recursion: u8,
}

pub fn gen(rng: &mut Rng, tier: Tier) -> Value {
    let mut st = draw_statement_with(rng, 40, false, true, false);
    st.cfg.hash = "poseidon".into();
    let mut rs = rng.sub("schedule");
    let mut re = rng.sub("entropy");
    let mut rf = rng.sub("faults");
    let fault_seed = rf.u64();
    let every_prefix = tier == Tier::Thorough && rf.chance(1, 100);
    let mut recursion = match rf.below(12) {
        0 => 1,
        1 | 2 => 2,
        _ => 0,
    };
    if recursion == 2 {
        // preconditions of the or-dummy variant (dummy_circuit must reproduce the common data; the dummy key is sized
        // by the outer cap height): no lookup tables, no blinding, cap height 4
        if !st.prog.tables.is_empty() {
            recursion = 1;
        } else {
            st.cfg.cap_height = 4;
            st.cfg.zero_knowledge = false;
        }
    }
    serde_json::to_value(Case {
        st,
        sched: Sched::draw(&mut rs),
        entropy: Entropy::draw(&mut re),
        fault_seed,
        every_prefix,
        recursion,
    })
    .unwrap()
}

/// `Write` seam with a full-disk fault: fails once more than `limit` bytes were written.
pub struct SimWriter {
    pub buf: Vec<u8>,
    pub limit: usize,
    pub failed: bool,
}

impl Write for SimWriter {
    type Error = IoError;
    fn write_all(&mut self, bytes: &[u8]) -> IoResult<()> {
        if self.buf.len() + bytes.len() > self.limit {
            let room = self.limit - self.buf.len();
            self.buf.extend_from_slice(&bytes[..room]); // short write, then the error
            self.failed = true;
            return Err(IoError);
        }
        self.buf.extend_from_slice(bytes);
        Ok(())
    }
    fn write_gate<FF: RichField + Extendable<DD>, const DD: usize>(
        &mut self,
        gate: &GateRef<FF, DD>,
        gate_serializer: &dyn GateSerializer<FF, DD>,
        common_data: &CommonCircuitData<FF, DD>,
    ) -> IoResult<()> {
        let mut tmp: Vec<u8> = Vec::new();
        gate_serializer.write_gate(&mut tmp, gate, common_data)?;
        self.write_all(&tmp)
    }
    fn write_generator<FF: RichField + Extendable<DD>, const DD: usize>(
        &mut self,
        generator: &WitnessGeneratorRef<FF, DD>,
        generator_serializer: &dyn WitnessGeneratorSerializer<FF, DD>,
        common_data: &CommonCircuitData<FF, DD>,
    ) -> IoResult<()> {
        let mut tmp: Vec<u8> = Vec::new();
        generator_serializer.write_generator(&mut tmp, generator, common_data)?;
        self.write_all(&tmp)
    }
}

fn viol(rep: &mut Report, case: &Case, oracle: &str, what: &str, detail: String) {
    rep.violation("C17", oracle, &format!("C17|{oracle}|{what}"), detail, serde_json::to_value(case).unwrap());
}

fn prefixes(len: usize, r: &mut Rng, every: bool) -> Vec<usize> {
    if every {
        if len <= 16384 {
            return (0..len).collect();
        }
        // long encodings (whole circuits are megabytes, a decode attempt is linear in the prefix): every prefix of the
        // head and of the tail, plus an even stride through the middle
        let mut v: Vec<usize> = (0..4096).chain(len - 4096..len).collect();
        let step = (len / 2048).max(1);
        v.extend((4096..len - 4096).step_by(step));
        v.sort();
        v.dedup();
        return v;
    }
    let mut v = vec![0, 1, 7, 8, len / 2, len.saturating_sub(9), len.saturating_sub(8), len.saturating_sub(1)];
    for _ in 0..6 {
        v.push(r.usize(len.max(1)));
    }
    v.retain(|&k| k < len);
    v.sort();
    v.dedup();
    v
}

type C = PC;

pub fn exec(case: &Value, rep: &mut Report) {
    let case: Case = serde_json::from_value(case.clone()).expect("malformed C17 case");
    let case = &case;
    let (built, proof) = match honest_accepted::<C>(&case.st, &case.sched, &case.entropy, rep) {
        Some(x) => x,
        None => return,
    };
    let data = &built.data;
    let common = &data.common;
    let gs = DefaultGateSerializer;
    let ws = DefaultGeneratorSerializer::<C, D> { _phantom: Default::default() };
    let base_sig = prog_shape(&case.st.prog) ^ hash_str(&built.cfg.class()) ^ hash_value(&json!(case.st.prog.inputs));
    let mut r = Rng::new(case.fault_seed);
    for g in &common.gates {
        let id = g.0.id();
        rep.probe(&format!("gate_tag.{}", id.split(|ch| ch == ' ' || ch == '{' || ch == '<' || ch == '(').next().unwrap()));
    }
    {
        let mut seen = std::collections::BTreeSet::new();
        for g in &data.prover_only.generators {
            seen.insert(g.0.id());
        }
        for id in seen {
            rep.probe(&format!("generator_tag.{id}"));
        }
    }

    macro_rules! roundtrip {
        ($what:expr, $orig:expr, $enc:expr, $dec:expr) => {{
            rep.case(base_sig ^ hash_str($what), true);
            let enc: Result<Vec<u8>, String> = match guarded(|| $enc($orig)) {
                Ok(Ok(b)) => Ok(b),
                Ok(Err(e)) => Err(format!("{e:?}")),
                Err(e) => Err(format!("panic {e}")),
            };
            match enc {
                Err(e) => {
                    viol(rep, case, "encode_failed", $what, e);
                    None
                }
                Ok(bytes) => {
                    rep.observe_bytes(&bytes);
                    match guarded(|| $dec(&bytes)) {
                        Ok(Ok(v)) => {
                            if &v != $orig {
                                viol(rep, case, "decoded_value_differs", $what, String::new());
                            }
                            match guarded(|| $enc(&v)) {
                                Ok(Ok(b2)) if b2 == bytes => {}
                                _ => viol(rep, case, "re_encoding_differs", $what, String::new()),
                            }
                            // torn / truncated input must not decode
                            for k in prefixes(bytes.len(), &mut r, case.every_prefix) {
                                // the compressed encoding carries its public inputs as an unprefixed tail
                                // ("the rest of the buffer"): a cut inside that tail is a shorter, well-formed message
                                if $what == "compressed_proof" && k + 8 * proof.public_inputs.len() >= bytes.len() {
                                    continue;
                                }
                                rep.fault(&format!("truncate.{}", $what));
                                rep.case(base_sig ^ hash_str($what) ^ (k as u64) << 8, true);
                                match guarded(|| $dec(&bytes[..k].to_vec())) {
                                    Ok(Ok(_)) => viol(rep, case, "truncated_input_decoded", $what, format!("prefix {k} of {}", bytes.len())),
                                    Ok(Err(_)) => {}
                                    Err(_) => rep.probe(&format!("c17.decoder_panicked_on_truncation.{} (C18 observation)", $what)),
                                }
                            }
                            Some((v, bytes))
                        }
                        Ok(Err(e)) => {
                            viol(rep, case, "decode_failed", $what, format!("{e:?}"));
                            None
                        }
                        Err(e) => {
                            viol(rep, case, "decode_failed", $what, format!("panic {e}"));
                            None
                        }
                    }
                }
            }
        }};
    }

    // ---- proofs
    roundtrip!("proof", &proof,
        |p: &ProofWithPublicInputs<F, C, D>| -> Result<Vec<u8>, IoError> { Ok(p.to_bytes()) },
        |b: &Vec<u8>| ProofWithPublicInputs::<F, C, D>::from_bytes(b.clone(), common));
    if let Ok(Ok(cp)) = guarded(|| data.compress(proof.clone())) {
        roundtrip!("compressed_proof", &cp,
            |p: &CompressedProofWithPublicInputs<F, C, D>| -> Result<Vec<u8>, IoError> { Ok(p.to_bytes()) },
            |b: &Vec<u8>| CompressedProofWithPublicInputs::<F, C, D>::from_bytes(b.clone(), common));
    }
    // ---- keys
    roundtrip!("verifier_only", &data.verifier_only,
        |v: &VerifierOnlyCircuitData<C, D>| v.to_bytes(),
        |b: &Vec<u8>| VerifierOnlyCircuitData::<C, D>::from_bytes(b.clone()));
    roundtrip!("common", common,
        |c: &CommonCircuitData<F, D>| c.to_bytes(&gs),
        |b: &Vec<u8>| CommonCircuitData::<F, D>::from_bytes(b.clone(), &gs));
    let vd = data.verifier_data();
    let restored_verifier = roundtrip!("verifier_circuit_data", &vd,
        |v: &VerifierCircuitData<F, C, D>| v.to_bytes(&gs),
        |b: &Vec<u8>| VerifierCircuitData::<F, C, D>::from_bytes(b.clone(), &gs));
    // ---- the whole circuit: crash and restart
    let restored = roundtrip!("circuit_data", data,
        |c: &CircuitData<F, C, D>| c.to_bytes(&gs, &ws),
        |b: &Vec<u8>| CircuitData::<F, C, D>::from_bytes(b, &gs, &ws));
    // prover data alone (encode/decode consume the value: rebuilt from the restored circuit)
    if let Some((_, cbytes)) = &restored {
        let pd: ProverCircuitData<F, C, D> = CircuitData::<F, C, D>::from_bytes(cbytes, &gs, &ws).expect("decoded once already").prover_data();
        rep.case(base_sig ^ hash_str("prover_circuit_data"), true);
        match guarded(|| pd.to_bytes(&gs, &ws)) {
            Ok(Ok(b)) => match guarded(|| ProverCircuitData::<F, C, D>::from_bytes(&b, &gs, &ws)) {
                Ok(Ok(p2)) => {
                    match guarded(|| p2.to_bytes(&gs, &ws)) {
                        Ok(Ok(b2)) if b2 == b => {}
                        _ => viol(rep, case, "re_encoding_differs", "prover_circuit_data", String::new()),
                    }
                    arm(&case.sched, &case.entropy);
                    match guarded(|| p2.prove(built.honest_witness(&case.st))) {
                        Ok(Ok(p)) => {
                            if built.verify(&p).is_err() {
                                viol(rep, case, "proof_of_restored_prover_rejected_by_original", "prover_circuit_data", String::new());
                            }
                        }
                        other => viol(rep, case, "restored_prover_cannot_prove", "prover_circuit_data", format!("{:?}", other.map(|r| r.map(|_| ())))),
                    }
                }
                other => viol(rep, case, "decode_failed", "prover_circuit_data", format!("{:?}", other.map(|r| r.is_ok()))),
            },
            other => viol(rep, case, "encode_failed", "prover_circuit_data", format!("{:?}", other.map(|r| r.is_ok()))),
        }
    }
    // ---- interchangeability
    if let Some((rc, _)) = &restored {
        rep.case(base_sig ^ hash_str("interchange"), true);
        if rc.verifier_only.circuit_digest != data.verifier_only.circuit_digest || rc.prover_only.circuit_digest != data.prover_only.circuit_digest {
            viol(rep, case, "restored_digest_differs", "circuit_data", String::new());
        }
        // witness generation: same entropy, same values
        case.entropy.arm();
        let w1 = guarded(|| generate_partial_witness(built.honest_witness(&case.st), &data.prover_only, &data.common).map(|w| w.values.clone()));
        case.entropy.arm();
        let w2 = guarded(|| generate_partial_witness(built.honest_witness(&case.st), &rc.prover_only, &rc.common).map(|w| w.values.clone()));
        match (w1, w2) {
            (Ok(Ok(a)), Ok(Ok(b))) => {
                if a != b {
                    viol(rep, case, "restored_witness_generation_differs", "circuit_data", String::new());
                }
            }
            (Ok(Ok(_)), _) => viol(rep, case, "restored_witness_generation_fails", "circuit_data", String::new()),
            _ => rep.skip("witness generation failed on the original"),
        }
        // restored prover -> original verifier ; original prover -> restored verifier
        arm(&case.sched, &case.entropy);
        match guarded(|| rc.prove(built.honest_witness(&case.st))) {
            Ok(Ok(p)) => {
                if built.verify(&p).is_err() {
                    viol(rep, case, "proof_of_restored_prover_rejected_by_original", "circuit_data", String::new());
                }
                if p.public_inputs != proof.public_inputs {
                    viol(rep, case, "restored_prover_public_inputs_differ", "circuit_data", String::new());
                }
            }
            other => viol(rep, case, "restored_prover_cannot_prove", "circuit_data", format!("{:?}", other.map(|r| r.map(|_| ())))),
        }
        rep.absorb_seams();
        if !matches!(guarded(|| rc.verify(proof.clone())), Ok(Ok(()))) {
            viol(rep, case, "original_proof_rejected_by_restored_circuit", "circuit_data", String::new());
        }
    }
    if let Some((rv, _)) = &restored_verifier {
        rep.case(base_sig ^ hash_str("interchange_verifier"), true);
        if !matches!(guarded(|| rv.verify(proof.clone())), Ok(Ok(()))) {
            viol(rep, case, "original_proof_rejected_by_restored_verifier", "verifier_circuit_data", String::new());
        }
    }

    // ---- write errors mid-encode: the encoder reports the error (never a short success)
    let full = data.to_bytes(&gs, &ws).unwrap_or_default();
    for k in prefixes(full.len(), &mut r, false) {
        rep.fault("write_err.circuit_data");
        rep.case(base_sig ^ hash_str("write_err") ^ (k as u64) << 8, true);
        let mut w = SimWriter { buf: Vec::new(), limit: k, failed: false };
        match guarded(|| w.write_circuit_data(data, &gs, &ws)) {
            Ok(Err(_)) => {}
            Ok(Ok(())) => viol(rep, case, "encoder_reported_success_after_write_error", "circuit_data", format!("limit {k} of {}", full.len())),
            Err(e) => viol(rep, case, "encoder_panicked_on_write_error", "circuit_data", e),
        }
    }
    let pb = proof.to_bytes();
    for k in prefixes(pb.len(), &mut r, false) {
        rep.fault("write_err.proof");
        rep.case(base_sig ^ hash_str("write_err_proof") ^ (k as u64) << 8, true);
        let mut w = SimWriter { buf: Vec::new(), limit: k, failed: false };
        match guarded(|| w.write_proof_with_public_inputs(&proof)) {
            Ok(Err(_)) => {}
            Ok(Ok(())) => viol(rep, case, "encoder_reported_success_after_write_error", "proof", format!("limit {k} of {}", pb.len())),
            Err(e) => viol(rep, case, "encoder_panicked_on_write_error", "proof", e),
        }
    }
    // a writer that never fails produces exactly to_bytes
    let mut w = SimWriter { buf: Vec::new(), limit: usize::MAX, failed: false };
    if w.write_circuit_data(data, &gs, &ws).is_err() || w.buf != full {
        viol(rep, case, "write_seam_differs_from_to_bytes", "circuit_data", String::new());
    }
    // ---- a recursion circuit (gates and generators that only aggregators use) through the same crash / restart
    if case.recursion > 0 && built.data.common.degree_bits() <= 8 && built.cfg.num_query_rounds <= 12 {
        recursion_roundtrip(case, &built, &proof, rep, base_sig);
    }
    rep.sample(json!({"config": built.cfg.class(), "ops": case.st.prog.ops.len(), "circuit_bytes": full.len(), "proof_bytes": pb.len(), "every_prefix": case.every_prefix}));
    let _ = Buffer::new(&[]);
}

pub fn shrink(case: &Value) -> Vec<Value> {
    let c: Case = serde_json::from_value(case.clone()).unwrap();
    let mut out = Vec::new();
    if c.sched.workers > 1 {
        let mut d = c.clone();
        d.sched = Sched::sequential();
        out.push(d);
    }
    for st in shrink_statement(&c.st) {
        if st.cfg.hash != "poseidon" {
            continue;
        }
        let mut d = c.clone();
        d.st = st;
        out.push(d);
    }
    out.into_iter().map(|d| serde_json::to_value(d).unwrap()).collect()
}

fn recursion_roundtrip(case: &Case, built: &Built<C>, proof: &ProofWithPublicInputs<F, C, D>, rep: &mut Report, base_sig: u64) {
    use plonky2::iop::witness::{PartialWitness, WitnessWrite};
    use plonky2::plonk::circuit_builder::CircuitBuilder;
    use plonky2::plonk::circuit_data::CircuitConfig;
    let gs = DefaultGateSerializer;
    let ws = DefaultGeneratorSerializer::<C, D> { _phantom: Default::default() };
    let inner = &built.data;
    case.entropy.arm();
    let outer = guarded(|| {
        let mut b = CircuitBuilder::<F, D>::new(CircuitConfig::standard_recursion_config());
        let pt = b.add_virtual_proof_with_pis(&inner.common);
        let vt = b.add_virtual_verifier_data(inner.common.config.fri_config.cap_height);
        let cond = if case.recursion == 2 {
            let c = b.add_virtual_bool_target_safe();
            b.conditionally_verify_proof_or_dummy::<C>(c, &pt, &vt, &inner.common).map_err(|e| e.to_string())?;
            Some(c)
        } else {
            b.verify_proof::<C>(&pt, &vt, &inner.common);
            None
        };
        b.register_public_inputs(&pt.public_inputs);
        Ok::<_, String>((b.build::<C>(), pt, vt, cond))
    });
    let (odata, pt, vt, cond) = match outer {
        Ok(Ok(x)) => x,
        _ => {
            rep.skip("recursion circuit not buildable for this inner shape (or-dummy preconditions)");
            return;
        }
    };
    for g in &odata.common.gates {
        let id = g.0.id();
        rep.probe(&format!("gate_tag.{}", id.split(|ch| ch == ' ' || ch == '{' || ch == '<' || ch == '(').next().unwrap()));
    }
    {
        let mut seen = std::collections::BTreeSet::new();
        for g in &odata.prover_only.generators {
            seen.insert(g.0.id());
        }
        for id in seen {
            rep.probe(&format!("generator_tag.{id}"));
        }
    }
    rep.probe(if case.recursion == 2 { "c17.recursion_circuit.or_dummy" } else { "c17.recursion_circuit.verify_proof" });
    let assign = || {
        let mut pw = PartialWitness::new();
        pw.set_proof_with_pis_target(&pt, proof).unwrap();
        pw.set_verifier_data_target(&vt, &inner.verifier_only).unwrap();
        if let Some(c) = cond {
            pw.set_bool_target(c, true).unwrap();
        }
        pw
    };
    rep.case(base_sig ^ hash_str("recursion_roundtrip") ^ case.recursion as u64, true);
    let bytes = match guarded(|| odata.to_bytes(&gs, &ws)) {
        Ok(Ok(b)) => b,
        other => return viol(rep, case, "encode_failed", "recursion_circuit_data", format!("{:?}", other.map(|r| r.is_ok()))),
    };
    let restored = match guarded(|| CircuitData::<F, C, D>::from_bytes(&bytes, &gs, &ws)) {
        Ok(Ok(c)) => c,
        other => return viol(rep, case, "decode_failed", "recursion_circuit_data", format!("{:?}", other.map(|r| r.is_ok()))),
    };
    if restored != odata {
        viol(rep, case, "decoded_value_differs", "recursion_circuit_data", String::new());
    }
    match guarded(|| restored.to_bytes(&gs, &ws)) {
        Ok(Ok(b2)) if b2 == bytes => {}
        _ => viol(rep, case, "re_encoding_differs", "recursion_circuit_data", String::new()),
    }
    // same witness from the same entropy, and interchangeable proofs
    case.entropy.arm();
    let w1 = guarded(|| generate_partial_witness(assign(), &odata.prover_only, &odata.common).map(|w| w.values.clone()));
    case.entropy.arm();
    let w2 = guarded(|| generate_partial_witness(assign(), &restored.prover_only, &restored.common).map(|w| w.values.clone()));
    match (w1, w2) {
        (Ok(Ok(a)), Ok(Ok(b))) => {
            if a != b {
                viol(rep, case, "restored_witness_generation_differs", "recursion_circuit_data", String::new());
            }
        }
        (Ok(Ok(_)), _) => viol(rep, case, "restored_witness_generation_fails", "recursion_circuit_data", String::new()),
        _ => {
            rep.skip("recursion: witness generation failed on the original");
            return;
        }
    }
    arm(&case.sched, &case.entropy);
    match guarded(|| restored.prove(assign())) {
        Ok(Ok(p)) => {
            if !matches!(guarded(|| odata.verify(p.clone())), Ok(Ok(()))) {
                viol(rep, case, "proof_of_restored_prover_rejected_by_original", "recursion_circuit_data", String::new());
            }
            if p.public_inputs != proof.public_inputs {
                viol(rep, case, "restored_prover_public_inputs_differ", "recursion_circuit_data", String::new());
            }
        }
        other => viol(rep, case, "restored_prover_cannot_prove", "recursion_circuit_data", format!("{:?}", other.map(|r| r.map(|_| ()).map_err(|e| e.to_string())))),
    }
    rep.absorb_seams();
}
