//! C20 — conditional and cyclic recursion enforce exactly the selected verification.
//! Aggregator with two inner proofs and a condition (full matrix), the or-dummy variant, dummy
//! proofs per common-data shape, and cyclic chains as histories.
use hashbrown::HashMap;
use plonky2::field::types::Field;
use plonky2::gates::noop::NoopGate;
use plonky2::hash::hash_types::HashOutTarget;
use plonky2::hash::poseidon::PoseidonHash;
use plonky2::iop::generator::generate_partial_witness;
use plonky2::iop::target::BoolTarget;
use plonky2::iop::witness::{PartialWitness, WitnessWrite};
use plonky2::plonk::circuit_builder::CircuitBuilder;
use plonky2::plonk::circuit_data::{CircuitConfig, CircuitData, CommonCircuitData, VerifierCircuitTarget, VerifierOnlyCircuitData};
use plonky2::plonk::proof::{ProofWithPublicInputs, ProofWithPublicInputsTarget};
use plonky2::recursion::cyclic_recursion::check_cyclic_proof_verifier_data;
use plonky2::recursion::dummy_circuit::{cyclic_base_proof, dummy_circuit, dummy_proof};
use serde::{Deserialize, Serialize};
use serde_json::{json, Value};

use crate::c01::prog_shape;
use crate::c02::{byz_proof, PFault};
use crate::core::*;
use crate::mutate::*;
use crate::pipeline::*;
use crate::prog::*;
use crate::sat::*;

type C = PC;

#[derive(Clone, Debug, Serialize, Deserialize)]
pub struct Case {
    /// "conditional" | "cyclic"
    pub mode: String,
    pub st: Statement,
    pub sched: Sched,
    pub entropy: Entropy,
    pub fault_seed: u64,
    pub chain_len: usize,
    /// replay: a single cell of the conditional matrix "variant:cond:i0:i1"
    #[serde(default)]
    pub only: Option<String>,
}

pub fn gen(rng: &mut Rng, _tier: Tier) -> Value {
    let mut r = rng.sub("c20");
    let mut st = draw_statement(rng, 8, false, true);
    st.cfg.hash = "poseidon".into();
    st.cfg.zero_knowledge = false;
    st.cfg.num_query_rounds = r.range(2, 6);
    st.cfg.rate_bits = 3;
    st.cfg.pow_bits = *r.pick(&[0u32, 3]);
    st.cfg.security_bits = st.cfg.security_bits.min(st.cfg.num_query_rounds * 3);
    st.cfg.strategy = if r.chance(1, 2) { Strat::ConstantArityBits(4, 5) } else { Strat::ConstantArityBits(r.range(1, 3), r.range(0, 3)) };
    if r.chance(2, 3) {
        st.cfg.cap_height = 4;
    }
    // a constant to vary between the two sibling circuits
    st.prog.ops.push(Op::Const(r.below(1 << 30)));
    st.prog.outputs.push(st.prog.eval(&st.prog.inputs).map(|v| v.len() - 1).unwrap_or(0));
    let mode = if r.chance(1, 12) { "cyclic" } else { "conditional" };
    let mut rs = rng.sub("schedule");
    let mut re = rng.sub("entropy");
    serde_json::to_value(Case { mode: mode.into(), st, sched: Sched::draw(&mut rs), entropy: Entropy::draw(&mut re), fault_seed: r.u64(), chain_len: r.range(1, 3), only: None }).unwrap()
}

fn viol(rep: &mut Report, case: &Case, cell: &str, oracle: &str, detail: String) {
    let mut c = case.clone();
    c.only = Some(cell.to_string());
    rep.violation("C20", oracle, &format!("C20|{oracle}|{}", cell.split(':').next().unwrap_or("")), detail, serde_json::to_value(&c).unwrap());
}

struct CondOuter {
    /// the condition is a build-time constant (not assigned through the witness)
    const_cond: bool,
    data: CircuitData<F, C, D>,
    cond: BoolTarget,
    pts: Vec<ProofWithPublicInputsTarget<D>>,
    vts: Vec<VerifierCircuitTarget>,
    ctx: SatCtx,
}

fn accepts(o: &CondOuter, cond: bool, ps: &[&ProofWithPublicInputs<F, C, D>], vs: &[&VerifierOnlyCircuitData<C, D>], entropy: &Entropy) -> (bool, String) {
    let r = guarded(|| {
        let mut pw = PartialWitness::new();
        if !o.const_cond {
            pw.set_bool_target(o.cond, cond).map_err(|e| e.to_string())?;
        }
        for (pt, p) in o.pts.iter().zip(ps) {
            pw.set_proof_with_pis_target(pt, *p).map_err(|e| format!("assignment: {e}"))?;
        }
        for (vt, v) in o.vts.iter().zip(vs) {
            pw.set_verifier_data_target(vt, *v).map_err(|e| format!("assignment: {e}"))?;
        }
        entropy.arm();
        let w = generate_partial_witness(pw, &o.data.prover_only, &o.data.common).map_err(|e| format!("generation: {}", e.to_string().chars().take(70).collect::<String>()))?;
        let pis = public_inputs_of(&o.data, &w);
        Ok::<Sat, String>(o.ctx.check(&o.data, &w.full_witness(), &pis))
    });
    match r {
        Ok(Ok(Sat::Ok)) => (true, "satisfied".into()),
        Ok(Ok(s)) => (false, format!("outer constraints violated: {}", s.kind())),
        Ok(Err(e)) => (false, e),
        Err(e) => (false, format!("panic: {}", e.chars().take(70).collect::<String>())),
    }
}

fn native(common: &CommonCircuitData<F, D>, vo: &VerifierOnlyCircuitData<C, D>, p: &ProofWithPublicInputs<F, C, D>) -> bool {
    matches!(guarded(|| verify_with::<C>(p.clone(), vo, common)), Ok(Ok(())))
}

fn exec_conditional(case: &Case, rep: &mut Report) {
    let (a, pa) = match honest_accepted::<C>(&case.st, &case.sched, &case.entropy, rep) {
        Some(x) => x,
        None => return,
    };
    if a.data.common.degree_bits() > 8 {
        rep.skip("inner circuit too large for the aggregator");
        return;
    }
    // sibling circuit: same program, another constant => same common data, other verifier key
    let mut stb = case.st.clone();
    for op in stb.prog.ops.iter_mut().rev() {
        if let Op::Const(c) = op {
            *c = (*c + 1) % (1 << 31);
            break;
        }
    }
    let sibling = match honest_accepted::<C>(&stb, &case.sched, &case.entropy, rep) {
        Some((b, pb)) if b.data.common == a.data.common && b.data.verifier_only.circuit_digest != a.data.verifier_only.circuit_digest => Some((b, pb)),
        _ => None,
    };
    if sibling.is_none() {
        rep.probe("c20.no_sibling_circuit_with_same_common_data");
    }
    let common = &a.data.common;
    let mut r = Rng::new(case.fault_seed);
    // inner proof variants: (name, proof, verifier key)
    let tree = serde_json::to_value(&pa).unwrap();
    let sh = shape(&tree);
    let mut tampered = None;
    for _ in 0..20 {
        let path = r.pick(&sh.leaves).clone();
        let mut t = tree.clone();
        if apply(&mut t, &Fault::Elem { path, kind: "plus1".into(), seed: 0 }) {
            if let Ok(p) = serde_json::from_value::<ProofWithPublicInputs<F, C, D>>(t) {
                if p != pa {
                    tampered = Some(p);
                    break;
                }
            }
        }
    }
    let (n, nw) = (common.degree(), common.config.num_wires);
    let falsep = byz_proof::<C>(&a, &case.st, &case.sched, &case.entropy, &PFault { cell: Some((r.usize(n * nw.min(60)), "plus1".into(), 0)), ..Default::default() });
    let va = &a.data.verifier_only;
    let mut variants: Vec<(String, ProofWithPublicInputs<F, C, D>, VerifierOnlyCircuitData<C, D>)> = vec![("valid".into(), pa.clone(), va.clone())];
    if let Some(t) = tampered {
        variants.push(("tampered".into(), t, va.clone()));
    }
    if let Some(f) = falsep {
        variants.push(("false_statement".into(), f, va.clone()));
    }
    if let Some((b, pb)) = &sibling {
        variants.push(("valid_other_circuit".into(), pb.clone(), b.data.verifier_only.clone()));
        variants.push(("right_proof_other_key".into(), pa.clone(), b.data.verifier_only.clone()));
        variants.push(("other_proof_right_key".into(), pb.clone(), va.clone()));
    }
    let nat: Vec<bool> = variants.iter().map(|(_, p, v)| native(common, v, p)).collect();
    let base_sig = prog_shape(&case.st.prog) ^ hash_str(&a.cfg.class()) ^ hash_value(&json!(case.st.prog.inputs));
    let want = |variant: &str, cond: bool, i0: usize, i1: usize| -> bool {
        match &case.only {
            None => true,
            Some(s) => *s == format!("{variant}:{cond}:{i0}:{i1}"),
        }
    };

    // ---- conditionally_verify_proof: the full matrix
    let outer = guarded(|| {
        let mut b = CircuitBuilder::<F, D>::new(CircuitConfig::standard_recursion_config());
        let cond = b.add_virtual_bool_target_safe();
        let pt0 = b.add_virtual_proof_with_pis(common);
        let pt1 = b.add_virtual_proof_with_pis(common);
        let vt0 = b.add_virtual_verifier_data(common.config.fri_config.cap_height);
        let vt1 = b.add_virtual_verifier_data(common.config.fri_config.cap_height);
        b.conditionally_verify_proof::<C>(cond, &pt0, &vt0, &pt1, &vt1, common);
        let data = b.build::<C>();
        let ctx = SatCtx::new(&data);
        CondOuter { const_cond: false, data, cond, pts: vec![pt0, pt1], vts: vec![vt0, vt1], ctx }
    });
    match outer {
        Err(e) => viol(rep, case, "two_proofs", "conditional_outer_build_panicked", e),
        Ok(o) => {
            rep.probe(&format!("c20.conditional_outer_degree_bits.{}", o.data.common.degree_bits()));
            for cond in [true, false] {
                for i0 in 0..variants.len() {
                    for i1 in 0..variants.len() {
                        if !want("two_proofs", cond, i0, i1) {
                            continue;
                        }
                        // quick matrix: all cells where the two branches differ in validity, plus a sample of the rest
                        if case.only.is_none() && nat[i0] == nat[i1] && !r.chance(1, 3) {
                            continue;
                        }
                        let expected = if cond { nat[i0] } else { nat[i1] };
                        let (got, why) = accepts(&o, cond, &[&variants[i0].1, &variants[i1].1], &[&variants[i0].2, &variants[i1].2], &case.entropy);
                        rep.fault(&format!("cell.{}|{}", variants[i0].0, variants[i1].0));
                        rep.case(base_sig ^ hash_value(&json!(["two", cond, i0, i1])), nat[i0] != nat[i1]);
                        if got != expected {
                            viol(rep, case, &format!("two_proofs:{cond}:{i0}:{i1}"), if expected { "selected_valid_but_circuit_rejects" } else { "selected_invalid_but_circuit_accepts" },
                                format!("cond={cond} proof0={} proof1={}: outer {}", variants[i0].0, variants[i1].0, why));
                        }
                    }
                }
            }
        }
    }

    // ---- the same with a condition that is a circuit constant (`_true()` / `_false()`): cells where the branches differ in validity
    if case.only.as_ref().map_or(true, |o| o.starts_with("const_cond")) {
        for cond in [true, false] {
            let outer = guarded(|| {
                let mut b = CircuitBuilder::<F, D>::new(CircuitConfig::standard_recursion_config());
                let c = if cond { b._true() } else { b._false() };
                let pt0 = b.add_virtual_proof_with_pis(common);
                let pt1 = b.add_virtual_proof_with_pis(common);
                let vt0 = b.add_virtual_verifier_data(common.config.fri_config.cap_height);
                let vt1 = b.add_virtual_verifier_data(common.config.fri_config.cap_height);
                b.conditionally_verify_proof::<C>(c, &pt0, &vt0, &pt1, &vt1, common);
                let data = b.build::<C>();
                let ctx = SatCtx::new(&data);
                CondOuter { const_cond: true, data, cond: c, pts: vec![pt0, pt1], vts: vec![vt0, vt1], ctx }
            });
            let o = match outer {
                Ok(o) => o,
                Err(e) => {
                    viol(rep, case, "const_cond", "conditional_outer_build_panicked", e);
                    continue;
                }
            };
            let mut done = 0;
            for i0 in 0..variants.len() {
                for i1 in 0..variants.len() {
                    if !want("const_cond", cond, i0, i1) {
                        continue;
                    }
                    if case.only.is_none() && (nat[i0] == nat[i1] || done >= 4) {
                        continue;
                    }
                    done += 1;
                    let expected = if cond { nat[i0] } else { nat[i1] };
                    let (got, why) = accepts(&o, cond, &[&variants[i0].1, &variants[i1].1], &[&variants[i0].2, &variants[i1].2], &case.entropy);
                    rep.fault(&format!("const_cond.{}|{}", variants[i0].0, variants[i1].0));
                    rep.case(base_sig ^ hash_value(&json!(["const", cond, i0, i1])), true);
                    if got != expected {
                        viol(rep, case, &format!("const_cond:{cond}:{i0}:{i1}"), if expected { "selected_valid_but_circuit_rejects" } else { "selected_invalid_but_circuit_accepts" },
                            format!("constant condition {cond}, proof0={} proof1={}: outer {}", variants[i0].0, variants[i1].0, why));
                    }
                }
            }
        }
    }

    // ---- conditionally_verify_proof_or_dummy
    // `dummy_circuit` asserts that a noop-padded circuit with the same gate set reproduces the common
    // data, and the dummy key target is sized by the OUTER cap height: both are preconditions of the
    // or-dummy variant (a build-time assert, not a verdict). Shapes outside them are skipped.
    case.entropy.arm();
    let dummy_ok = matches!(guarded(|| dummy_circuit::<F, C, D>(common)), Ok(_)) && common.config.fri_config.cap_height == CircuitConfig::standard_recursion_config().fri_config.cap_height;
    rep.probe(if dummy_ok { "c20.shape_supports_dummy_proofs" } else { "c20.shape_outside_dummy_circuit_preconditions" });
    if !dummy_ok {
        rep.sample(json!({"mode": "conditional", "inner_config": a.cfg.class(), "variants": variants.iter().map(|v| v.0.clone()).collect::<Vec<_>>(), "native": nat, "or_dummy": "skipped"}));
        return;
    }
    let outer = guarded(|| {
        let mut b = CircuitBuilder::<F, D>::new(CircuitConfig::standard_recursion_config());
        let cond = b.add_virtual_bool_target_safe();
        let pt = b.add_virtual_proof_with_pis(common);
        let vt = b.add_virtual_verifier_data(common.config.fri_config.cap_height);
        case.entropy.arm();
        b.conditionally_verify_proof_or_dummy::<C>(cond, &pt, &vt, common).map_err(|e| e.to_string())?;
        let data = b.build::<C>();
        let ctx = SatCtx::new(&data);
        Ok::<CondOuter, String>(CondOuter { const_cond: false, data, cond, pts: vec![pt], vts: vec![vt], ctx })
    });
    match outer {
        Ok(Ok(o)) => {
            for cond in [true, false] {
                for i0 in 0..variants.len() {
                    if !want("or_dummy", cond, i0, 0) {
                        continue;
                    }
                    let expected = if cond { nat[i0] } else { true };
                    let (got, why) = accepts(&o, cond, &[&variants[i0].1], &[&variants[i0].2], &case.entropy);
                    rep.fault(&format!("or_dummy.{}", variants[i0].0));
                    rep.case(base_sig ^ hash_value(&json!(["dummy", cond, i0])), true);
                    if got != expected {
                        viol(rep, case, &format!("or_dummy:{cond}:{i0}:0"), if expected { "selected_valid_but_circuit_rejects" } else { "selected_invalid_but_circuit_accepts" },
                            format!("or_dummy cond={cond} proof={}: outer {}", variants[i0].0, why));
                    }
                }
            }
        }
        Ok(Err(e)) => viol(rep, case, "or_dummy", "or_dummy_outer_build_failed", e),
        Err(e) => viol(rep, case, "or_dummy", "or_dummy_outer_build_failed", e),
    }

    // ---- dummy proofs generated for this circuit shape are valid for their dummy circuit
    if case.only.is_none() {
        case.entropy.arm();
        rep.case(base_sig ^ hash_str("dummy_proof"), true);
        match guarded(|| {
            let dc = dummy_circuit::<F, C, D>(common);
            let mut nz = HashMap::new();
            if common.num_public_inputs > 0 {
                nz.insert(0usize, F::from_canonical_u64(7));
            }
            let p = dummy_proof::<F, C, D>(&dc, nz).map_err(|e| e.to_string())?;
            dc.verify(p).map_err(|e| e.to_string())
        }) {
            Ok(Ok(())) => {}
            other => viol(rep, case, "dummy", "dummy_proof_not_valid_for_its_dummy_circuit", format!("{:?}", other)),
        }
    }
    rep.sample(json!({"mode": "conditional", "inner_config": a.cfg.class(), "variants": variants.iter().map(|v| v.0.clone()).collect::<Vec<_>>(), "native": nat}));
}

/// Common data of a circuit that can verify its own proofs (as in the library's cyclic test).
fn cyclic_config(cap_height: usize) -> CircuitConfig {
    let mut config = CircuitConfig::standard_recursion_config();
    config.fri_config.cap_height = cap_height;
    config
}

fn common_data_for_recursion(cap_height: usize) -> CommonCircuitData<F, D> {
    let config = cyclic_config(cap_height);
    let builder = CircuitBuilder::<F, D>::new(config.clone());
    let data = builder.build::<C>();
    let mut builder = CircuitBuilder::<F, D>::new(config.clone());
    let proof = builder.add_virtual_proof_with_pis(&data.common);
    let vd = builder.add_virtual_verifier_data(data.common.config.fri_config.cap_height);
    builder.verify_proof::<C>(&proof, &vd, &data.common);
    let data = builder.build::<C>();
    let mut builder = CircuitBuilder::<F, D>::new(config);
    let proof = builder.add_virtual_proof_with_pis(&data.common);
    let vd = builder.add_virtual_verifier_data(data.common.config.fri_config.cap_height);
    builder.verify_proof::<C>(&proof, &vd, &data.common);
    while builder.num_gates() < 1 << 12 {
        builder.add_gate(NoopGate, vec![]);
    }
    builder.build::<C>().common
}

fn exec_cyclic(case: &Case, rep: &mut Report) {
    // scheduler and entropy are armed before anything runs (the base proof grinds: without this the winner of its
    // parallel search depended on what the process had executed before - found by the determinism self-test)
    arm(&case.sched, &case.entropy);
    let mut r = Rng::new(case.fault_seed);
    // Merkle cap height of the cyclic circuit: the standard 4 and its neighbours
    let cap_height = *Rng::new(case.fault_seed ^ 0xca9).pick(&[4usize, 4, 0, 1, 2, 3]);
    rep.probe(&format!("c20.cyclic_cap_height.{cap_height}"));
    let built = guarded(|| {
        case.entropy.arm();
        let mut builder = CircuitBuilder::<F, D>::new(cyclic_config(cap_height));
        let one = builder.one();
        let initial_hash_target = builder.add_virtual_hash();
        builder.register_public_inputs(&initial_hash_target.elements);
        let current_hash_in = builder.add_virtual_hash();
        let current_hash_out = builder.hash_n_to_hash_no_pad::<PoseidonHash>(current_hash_in.elements.to_vec());
        builder.register_public_inputs(&current_hash_out.elements);
        let counter = builder.add_virtual_public_input();
        let mut common_data = common_data_for_recursion(cap_height);
        let vdt = builder.add_verifier_data_public_inputs();
        common_data.num_public_inputs = builder.num_public_inputs();
        let condition = builder.add_virtual_bool_target_safe();
        let inner = builder.add_virtual_proof_with_pis(&common_data);
        let pis = &inner.public_inputs;
        let inner_initial = HashOutTarget::try_from(&pis[0..4]).unwrap();
        let inner_latest = HashOutTarget::try_from(&pis[4..8]).unwrap();
        let inner_counter = pis[8];
        builder.connect_hashes(initial_hash_target, inner_initial);
        let actual_in = HashOutTarget { elements: core::array::from_fn(|i| builder.select(condition, inner_latest.elements[i], initial_hash_target.elements[i])) };
        builder.connect_hashes(current_hash_in, actual_in);
        let new_counter = builder.mul_add(condition.target, inner_counter, one);
        builder.connect(counter, new_counter);
        builder.conditionally_verify_cyclic_proof_or_dummy::<C>(condition, &inner, &common_data).map_err(|e| e.to_string())?;
        let data = builder.build::<C>();
        Ok::<_, String>((data, common_data, condition, inner, vdt))
    });
    let (data, common_data, condition, inner, vdt) = match built {
        Ok(Ok(x)) => x,
        other => {
            rep.case(0, true);
            return viol(rep, case, "cyclic", "cyclic_circuit_build_failed", format!("{:?}", other.map(|r| r.map(|_| ()))));
        }
    };
    rep.probe("c20.cyclic_chain");
    let sig = hash_value(&json!(["cyclic", case.chain_len, case.entropy.seed]));
    let initial: [u64; 4] = [r.felt(), r.felt_biased(), r.felt(), r.felt()];
    let init_pis: HashMap<usize, F> = initial.iter().enumerate().map(|(i, x)| (i, fe(*x))).collect();
    arm(&case.sched, &case.entropy);
    let base = match guarded(|| cyclic_base_proof(&common_data, &data.verifier_only, init_pis.clone())) {
        Ok(p) => p,
        Err(e) => return viol(rep, case, "cyclic", "cyclic_base_proof_panicked", e),
    };
    let mut prev: ProofWithPublicInputs<F, C, D> = base;
    let mut expected_hash = initial;
    for link in 0..=case.chain_len {
        let mut pw = PartialWitness::new();
        pw.set_bool_target(condition, link > 0).unwrap();
        if pw.set_proof_with_pis_target::<C, D>(&inner, &prev).is_err() || pw.set_verifier_data_target(&vdt, &data.verifier_only).is_err() {
            return viol(rep, case, "cyclic", "cyclic_assignment_failed", format!("link {link}"));
        }
        arm(&case.sched, &case.entropy);
        rep.case(sig ^ link as u64, true);
        let p = match guarded(|| data.prove(pw)) {
            Ok(Ok(p)) => p,
            other => return viol(rep, case, "cyclic", "cyclic_link_not_provable", format!("link {link}: {:?}", other.map(|r| r.map(|_| ()).map_err(|e| e.to_string())))),
        };
        rep.absorb_seams();
        if !matches!(guarded(|| data.verify(p.clone())), Ok(Ok(()))) {
            return viol(rep, case, "cyclic", "cyclic_link_rejected", format!("link {link}"));
        }
        if !matches!(guarded(|| check_cyclic_proof_verifier_data(&p, &data.verifier_only, &data.common)), Ok(Ok(()))) {
            return viol(rep, case, "cyclic", "cyclic_link_does_not_carry_own_verifier_data", format!("link {link}"));
        }
        // the chain computes the repeated hash (reference Poseidon)
        expected_hash = crate::refmath::hash_no_pad(&expected_hash);
        let pi = canon(&p.public_inputs);
        if pi[0..4] != initial || pi[4..8] != expected_hash || pi[8] != (link as u64 + 1) {
            return viol(rep, case, "cyclic", "cyclic_public_inputs_differ_from_reference", format!("link {link}"));
        }
        prev = p;
    }
    // every alteration of the verifier data carried in the public inputs is caught
    let n_pis = prev.public_inputs.len();
    let cap_elements = data.common.config.fri_config.num_cap_elements();
    let start = n_pis - 4 - 4 * cap_elements;
    for i in start..n_pis {
        let mut p2 = prev.clone();
        p2.public_inputs[i] += F::ONE;
        rep.fault("cyclic.embedded_verifier_data_altered");
        rep.case(sig ^ hash_str("vd") ^ i as u64, true);
        if matches!(guarded(|| check_cyclic_proof_verifier_data(&p2, &data.verifier_only, &data.common)), Ok(Ok(()))) {
            viol(rep, case, "cyclic", "altered_embedded_verifier_data_not_detected", format!("public input {i}"));
        }
        if i % 7 == 0 && matches!(guarded(|| data.verify(p2.clone())), Ok(Ok(()))) {
            viol(rep, case, "cyclic", "proof_with_altered_embedded_verifier_data_accepted", format!("public input {i}"));
        }
    }
    // Byzantine chain: a link proved under *foreign* verifier data (cap or digest altered; its base case is the
    // dummy, so the link itself is a valid proof of the cyclic circuit) must not be extendable by an honest step
    for which in ["cap", "digest"] {
        let mut vd2 = data.verifier_only.clone();
        if which == "cap" {
            let j = r.usize(vd2.constants_sigmas_cap.0.len());
            vd2.constants_sigmas_cap.0[j].elements[r.usize(4)] += F::ONE;
        } else {
            vd2.circuit_digest.elements[r.usize(4)] += F::ONE;
        }
        arm(&case.sched, &case.entropy);
        let base2 = match guarded(|| cyclic_base_proof(&common_data, &vd2, init_pis.clone())) {
            Ok(p) => p,
            Err(_) => continue,
        };
        let mut pw = PartialWitness::new();
        pw.set_bool_target(condition, false).unwrap();
        if pw.set_proof_with_pis_target::<C, D>(&inner, &base2).is_err() || pw.set_verifier_data_target(&vdt, &vd2).is_err() {
            continue;
        }
        arm(&case.sched, &case.entropy);
        let foreign = match guarded(|| data.prove(pw)) {
            Ok(Ok(p)) => p,
            _ => {
                rep.probe("c20.foreign_link_not_provable");
                continue;
            }
        };
        rep.fault(&format!("cyclic.foreign_link.{which}"));
        rep.case(sig ^ hash_str("foreign") ^ hash_str(which), true);
        if matches!(guarded(|| check_cyclic_proof_verifier_data(&foreign, &data.verifier_only, &data.common)), Ok(Ok(()))) {
            viol(rep, case, "cyclic", "altered_embedded_verifier_data_not_detected", format!("foreign link ({which})"));
        }
        let mut pw = PartialWitness::new();
        pw.set_bool_target(condition, true).unwrap();
        if pw.set_proof_with_pis_target::<C, D>(&inner, &foreign).is_err() || pw.set_verifier_data_target(&vdt, &data.verifier_only).is_err() {
            continue;
        }
        arm(&case.sched, &case.entropy);
        if let Ok(Ok(tip)) = guarded(|| data.prove(pw)) {
            let ok = matches!(guarded(|| data.verify(tip.clone())), Ok(Ok(())));
            let carries = matches!(guarded(|| check_cyclic_proof_verifier_data(&tip, &data.verifier_only, &data.common)), Ok(Ok(())));
            if ok && carries {
                viol(rep, case, "cyclic", "chain_with_foreign_link_accepted", format!("a link carrying altered verifier data ({which}) was extended by an honest step; the tip verifies and carries the genuine data"));
            }
        }
    }
    rep.sample(json!({"mode": "cyclic", "chain_len": case.chain_len, "degree_bits": data.common.degree_bits(), "public_inputs": n_pis}));
}

pub fn exec(case: &Value, rep: &mut Report) {
    let case: Case = serde_json::from_value(case.clone()).expect("malformed C20 case");
    if case.mode == "cyclic" {
        exec_cyclic(&case, rep)
    } else {
        exec_conditional(&case, rep)
    }
}

pub fn shrink(case: &Value) -> Vec<Value> {
    let c: Case = serde_json::from_value(case.clone()).unwrap();
    let mut out = Vec::new();
    if c.sched.workers > 1 {
        let mut d = c.clone();
        d.sched = Sched::sequential();
        out.push(d);
    }
    if c.mode == "cyclic" && c.chain_len > 1 {
        let mut d = c.clone();
        d.chain_len -= 1;
        out.push(d);
    }
    out.into_iter().map(|d| serde_json::to_value(d).unwrap()).collect()
}
