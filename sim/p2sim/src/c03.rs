//! C03 — accepted proofs are bound to each of their elements and to their circuit.
use plonky2::plonk::config::GenericConfig;
use plonky2::plonk::proof::{CompressedProofWithPublicInputs, ProofWithPublicInputs};

use serde::{Deserialize, Serialize};
use serde_json::{json, Value};

use crate::c01::prog_shape;
use crate::core::*;
use crate::mutate::*;
use crate::pipeline::*;
use crate::prog::*;
use crate::with_config;

#[derive(Clone, Debug, Serialize, Deserialize)]
pub struct Case {
    pub st: Statement,
    pub sched: Sched,
    pub entropy: Entropy,
    /// statement of another circuit, for misdelivery
    pub other: Option<Statement>,
    pub fault_seed: u64,
    /// enumerate every element position (thorough, small proofs) instead of a stratified sample
    pub exhaustive: bool,
    /// replay: only this fault, on the plain ("plain") or compressed ("compressed") form
    #[serde(default)]
    pub only: Option<(String, Fault)>,
}

pub fn gen(rng: &mut Rng, tier: Tier) -> Value {
    let mut st = draw_statement(rng, 25, true, false);
    st.cfg.num_query_rounds = st.cfg.num_query_rounds.max(if st.cfg.zero_knowledge { 8 } else { 13 });
    st.cfg.security_bits = st.cfg.security_bits.min(st.cfg.num_query_rounds * st.cfg.rate_bits);
    let mut ro = rng.sub("other");
    let mut other = draw_statement(&mut ro, 10, true, false);
    other.cfg = st.cfg.clone();
    let mut rs = rng.sub("schedule");
    let mut re = rng.sub("entropy");
    let mut rf = rng.sub("faults");
    serde_json::to_value(Case {
        st,
        sched: Sched::draw(&mut rs),
        entropy: Entropy::draw(&mut re),
        other: Some(other),
        fault_seed: rf.u64(),
        exhaustive: tier == Tier::Thorough && rf.chance(1, 30),
        only: None,
    })
    .unwrap()
}

fn viol(rep: &mut Report, case: &Case, form: &str, f: &Fault, oracle: &str, detail: String) {
    let mut c = case.clone();
    c.only = Some((form.to_string(), f.clone()));
    rep.violation("C03", oracle, &format!("C03|{oracle}|{form}|{}|{}", f.kind(), component(f.path())), detail, serde_json::to_value(&c).unwrap());
}

const ELEM_KINDS: [&str; 4] = ["plus1", "zero", "random", "neighbour"];
const LIST_KINDS: [&str; 5] = ["drop_last", "empty", "duplicate_last", "swap_adjacent", "drop_first"];

/// Faults to try on a serialised proof tree.
pub fn plan(tree: &Value, r: &mut Rng, exhaustive: bool, skip_indices: bool) -> Vec<Fault> {
    let sh = shape(tree);
    let keep = |p: &Path| !(skip_indices && component(p).contains("query_round_proofs/indices"));
    let leaves: Vec<Path> = sh.leaves.iter().filter(|p| keep(p)).cloned().collect();
    // exhaustive = every element position; trees with more than 40 000 positions (Keccak digests are 25 positions each)
    // get a dense stratified sample instead (first, last and 40 random positions per component): the fault list of a
    // 500 000-position tree alone took gigabytes
    let positions = if exhaustive && leaves.len() <= 40_000 {
        leaves.clone()
    } else if exhaustive {
        stratified(&leaves, r, 40)
    } else {
        stratified(&leaves, r, 2)
    };
    let mut out = Vec::new();
    for p in positions {
        if exhaustive {
            for k in ELEM_KINDS {
                out.push(Fault::Elem { path: p.clone(), kind: k.to_string(), seed: r.u64() });
            }
        } else {
            let k = *r.pick(&ELEM_KINDS);
            out.push(Fault::Elem { path: p.clone(), kind: "plus1".into(), seed: 0 });
            if k != "plus1" {
                out.push(Fault::Elem { path: p, kind: k.to_string(), seed: r.u64() });
            }
        }
    }
    // list faults: every array in exhaustive mode; otherwise first/last/random array per component
    let arrays: Vec<Path> = sh.arrays.iter().filter(|p| keep(p)).cloned().collect();
    let arrs = if exhaustive { arrays } else { stratified(&arrays, r, 1) };
    for a in arrs {
        for k in LIST_KINDS {
            out.push(Fault::List { path: a.clone(), kind: k.to_string() });
        }
    }
    out
}

fn exec_c<C: GenericConfig<D, F = F>>(case: &Case, rep: &mut Report) {
    let (built, proof) = match honest_accepted::<C>(&case.st, &case.sched, &case.entropy, rep) {
        Some(x) => x,
        None => return,
    };
    let q = built.cfg.num_query_rounds;
    if q * built.lde_bits() < 64 {
        rep.skip("R3 floor: q*lde_bits < 64");
        return;
    }
    let base_sig = prog_shape(&case.st.prog) ^ hash_str(&built.cfg.class()) ^ hash_value(&json!(case.st.prog.inputs));
    let common = &built.data.common;
    let vo = &built.data.verifier_only;
    let mut r = Rng::new(case.fault_seed);

    // ---- plain form
    let tree = serde_json::to_value(&proof).unwrap();
    let back: ProofWithPublicInputs<F, C, D> = serde_json::from_value(tree.clone()).expect("json round trip");
    assert!(back == proof, "json round trip changed the proof");
    let faults: Vec<Fault> = match &case.only {
        Some((form, f)) if form == "plain" => vec![f.clone()],
        Some(_) => vec![],
        None => plan(&tree, &mut r, case.exhaustive, false),
    };
    let mut per_component: std::collections::BTreeMap<String, u64> = Default::default();
    for f in &faults {
        let mut t = tree.clone();
        let changed = apply(&mut t, f);
        let sig = base_sig ^ hash_value(&serde_json::to_value(f).unwrap());
        if !changed {
            rep.case(sig, false);
            continue;
        }
        rep.fault(&f.kind());
        *per_component.entry(component(f.path())).or_default() += 1;
        let decoded: Result<ProofWithPublicInputs<F, C, D>, _> = serde_json::from_value(t);
        let p2 = match decoded {
            Ok(p) => p,
            Err(_) => {
                // not a value of the proof type (fixed-size array changed length): rejected at decode
                rep.case(sig, false);
                rep.probe("c03.rejected_at_decode");
                continue;
            }
        };
        if p2 == proof {
            rep.case(sig, false);
            continue;
        }
        rep.case(sig, true);
        match guarded(|| verify_with::<C>(p2, vo, common)) {
            Ok(Ok(())) => viol(rep, case, "plain", f, "tampered_proof_accepted", format!("{} at {}", f.kind(), path_str(f.path()))),
            Ok(Err(_)) => {}
            Err(_) => rep.probe("c03.verify_panicked (C18 observation)"),
        }
    }
    for (c, n) in per_component {
        rep.probe_n(&format!("component.{c}"), n);
    }

    // ---- compressed form
    let compressed = match guarded(|| built.data.compress(proof.clone())) {
        Ok(Ok(c)) => Some(c),
        _ => {
            rep.skip("compress failed (reported by C16)");
            None
        }
    };
    if let Some(cp) = compressed {
        if guarded(|| built.data.verify_compressed(cp.clone())).map(|r| r.is_ok()) == Ok(true) {
            let tree = serde_json::to_value(&cp).unwrap();
            let faults: Vec<Fault> = match &case.only {
                Some((form, f)) if form == "compressed" => vec![f.clone()],
                Some(_) => vec![],
                None => plan(&tree, &mut r, case.exhaustive, true),
            };
            for f in &faults {
                let mut t = tree.clone();
                let changed = apply(&mut t, f);
                let sig = base_sig ^ hash_str("compressed") ^ hash_value(&serde_json::to_value(f).unwrap());
                if !changed {
                    rep.case(sig, false);
                    continue;
                }
                let decoded: Result<CompressedProofWithPublicInputs<F, C, D>, _> = serde_json::from_value(t);
                let p2 = match decoded {
                    Ok(p) if p != cp => p,
                    _ => {
                        rep.case(sig, false);
                        continue;
                    }
                };
                rep.fault(&format!("compressed.{}", f.kind()));
                rep.case(sig, true);
                match guarded(|| built.data.verify_compressed(p2)) {
                    Ok(Ok(())) => viol(rep, case, "compressed", f, "tampered_compressed_proof_accepted", format!("{} at {}", f.kind(), path_str(f.path()))),
                    Ok(Err(_)) => {}
                    Err(_) => rep.probe("c03.verify_compressed_panicked (C18 observation)"),
                }
            }
        } else {
            rep.skip("honest compressed proof rejected (reported by C16)");
        }
    }

    // ---- misdelivery: the proof presented with another circuit's verifier data
    if case.only.is_none() {
        if let Some(other) = &case.other {
            if let BuildOutcome::Ok(ob) = build::<C>(other) {
                if ob.data.verifier_only.circuit_digest != vo.circuit_digest {
                    let f = Fault::Set { path: vec![Seg::K("verifier_data".into())], value: json!("other circuit") };
                    for (name, v, c) in [
                        ("other_verifier_and_common", &ob.data.verifier_only, &ob.data.common),
                        ("other_verifier_only", &ob.data.verifier_only, common),
                    ] {
                        rep.fault(&format!("misdeliver.{name}"));
                        rep.case(base_sig ^ hash_str(name) ^ prog_shape(&other.prog), true);
                        if let Ok(Ok(())) = guarded(|| verify_with::<C>(proof.clone(), v, c)) {
                            viol(rep, case, name, &f, "proof_accepted_for_other_circuit", name.to_string());
                        }
                    }
                } else {
                    rep.skip("misdeliver: same digest");
                }
            }
        }
    } else if let Some((form, f)) = &case.only {
        if form.starts_with("other_") {
            if let Some(other) = &case.other {
                if let BuildOutcome::Ok(ob) = build::<C>(other) {
                    let (v, c) = if form == "other_verifier_only" { (&ob.data.verifier_only, common) } else { (&ob.data.verifier_only, &ob.data.common) };
                    if ob.data.verifier_only.circuit_digest != vo.circuit_digest {
                        rep.case(base_sig ^ hash_str(form), true);
                        if let Ok(Ok(())) = guarded(|| verify_with::<C>(proof.clone(), v, c)) {
                            viol(rep, case, form, f, "proof_accepted_for_other_circuit", form.to_string());
                        }
                    }
                }
            }
        }
    }
    rep.sample(json!({"config": built.cfg.class(), "degree_bits": common.degree_bits(), "ops": case.st.prog.ops.len(),
        "faults_planned_plain": faults.len(), "example_fault": faults.get(faults.len() / 2), "exhaustive": case.exhaustive}));
}

pub fn exec(case: &Value, rep: &mut Report) {
    let case: Case = serde_json::from_value(case.clone()).expect("malformed C03 case");
    with_config!(case.st.cfg.hash, exec_c, &case, rep)
}

pub fn shrink(case: &Value) -> Vec<Value> {
    let c: Case = serde_json::from_value(case.clone()).unwrap();
    let mut out = Vec::new();
    if c.sched.workers > 1 {
        let mut d = c.clone();
        d.sched = Sched::sequential();
        out.push(d);
    }
    if c.entropy.mode != "stream" {
        let mut d = c.clone();
        d.entropy = Entropy { seed: 0, mode: "stream".into() };
        out.push(d);
    }
    for st in shrink_statement(&c.st) {
        // keep the R3 floor while shrinking
        if st.cfg.num_query_rounds < 8 {
            continue;
        }
        let mut d = c.clone();
        d.st = st;
        out.push(d);
    }
    if let Some((form, Fault::Elem { path, kind, .. })) = &c.only {
        if kind != "plus1" {
            let mut d = c.clone();
            d.only = Some((form.clone(), Fault::Elem { path: path.clone(), kind: "plus1".into(), seed: 0 }));
            out.push(d);
        }
    }
    out.into_iter().map(|d| serde_json::to_value(d).unwrap()).collect()
}
