//! C07 — every value a gate computes is pinned by that gate's constraints, and the gate's
//! evaluators agree. Single-write faults in the prover's witness memory at gate granularity.
//! Mode "circuit": rows of real generated circuits (gates as the gadgets place them, row widths
//! varied through the configuration); mode "gate": stand-alone rows of a gate in a parameter sweep.
use plonky2::field::extension::{Extendable, FieldExtension};
use plonky2::field::types::{Field, PrimeField64};
use plonky2::gates::arithmetic_base::ArithmeticGate;
use plonky2::gates::arithmetic_extension::ArithmeticExtensionGate;
use plonky2::gates::base_sum::BaseSumGate;
use plonky2::gates::constant::ConstantGate;
use plonky2::gates::coset_interpolation::CosetInterpolationGate;
use plonky2::gates::exponentiation::ExponentiationGate;
use plonky2::gates::gate::{Gate, GateRef};
use plonky2::gates::multiplication_extension::MulExtensionGate;
use plonky2::gates::poseidon::PoseidonGate;
use plonky2::gates::poseidon_mds::PoseidonMdsGate;
use plonky2::gates::random_access::RandomAccessGate;
use plonky2::gates::reducing::ReducingGate;
use plonky2::gates::reducing_extension::ReducingExtensionGate;
use plonky2::hash::hash_types::HashOut;
use plonky2::iop::generator::{generate_partial_witness, GeneratedValues};
use plonky2::iop::target::Target;
use plonky2::iop::wire::Wire;
use plonky2::iop::witness::{PartialWitness, PartitionWitness, Witness, WitnessWrite};
use plonky2::plonk::circuit_builder::CircuitBuilder;
use plonky2::plonk::circuit_data::CircuitConfig;
use plonky2::plonk::config::{GenericConfig, Hasher};
use plonky2::plonk::vars::{EvaluationTargets, EvaluationVars, EvaluationVarsBaseBatch};
use serde::{Deserialize, Serialize};
use serde_json::{json, Value};

use crate::c01::prog_shape;
use crate::core::*;
use crate::pipeline::*;
use crate::prog::*;

#[derive(Clone, Debug, Serialize, Deserialize)]
pub struct Case {
    /// "circuit" | "gate"
    pub mode: String,
    pub st: Option<Statement>,
    pub entropy: Entropy,
    /// gate kind and parameters for mode "gate"
    pub gate: Option<(String, Vec<usize>)>,
    pub seed: u64,
    /// replay: only this (row, wire) perturbation
    #[serde(default)]
    pub only: Option<(usize, usize)>,
}

fn gate_specs(r: &mut Rng) -> (String, Vec<usize>) {
    let kinds = ["ArithmeticGate", "ArithmeticExtensionGate", "MulExtensionGate", "BaseSumGate2", "BaseSumGate3", "BaseSumGate4", "BaseSumGate8", "BaseSumGate16", "ConstantGate",
        "CosetInterpolationGate", "ExponentiationGate", "PoseidonGate", "PoseidonMdsGate", "RandomAccessGate", "ReducingGate", "ReducingExtensionGate"];
    let k = *r.pick(&kinds);
    let p: Vec<usize> = match k {
        "ArithmeticGate" => vec![r.range(1, 30)],
        "ArithmeticExtensionGate" => vec![r.range(1, 13)],
        "MulExtensionGate" => vec![r.range(1, 16)],
        "BaseSumGate2" => vec![r.range(1, 63)],
        "BaseSumGate3" => vec![r.range(1, 40)],
        "BaseSumGate4" => vec![r.range(1, 31)],
        "BaseSumGate8" => vec![r.range(1, 21)],
        "BaseSumGate16" => vec![r.range(1, 15)],
        "ConstantGate" => vec![r.range(1, 6)],
        "CosetInterpolationGate" => {
            // (subgroup bits, degree bound): the builder instantiates the gate with a bound below 2^bits, which adds intermediate wires
            let bits = r.range(1, 4);
            vec![bits, r.range(2, 1 << bits)]
        }
        "ExponentiationGate" => vec![r.range(1, 66)],
        "RandomAccessGate" => {
            // (bits, num_wires, num_routed_wires, num_constants): copies follow from the row width
            let (w, rw) = *r.pick(&[(135usize, 80usize), (143, 100), (234, 80), (200, 120), (60, 40), (30, 20)]);
            vec![r.range(1, 5), w, rw, r.range(0, 4)]
        }
        "ReducingGate" => vec![r.range(1, 60)],
        "ReducingExtensionGate" => vec![r.range(1, 40)],
        _ => vec![],
    };
    (k.to_string(), p)
}

pub fn gen(rng: &mut Rng, _tier: Tier) -> Value {
    let mut r = rng.sub("c07");
    let mut re = rng.sub("entropy");
    if r.chance(1, 3) {
        let st = draw_statement(rng, 30, false, false);
        serde_json::to_value(Case { mode: "circuit".into(), st: Some(st), entropy: Entropy::draw(&mut re), gate: None, seed: r.u64(), only: None }).unwrap()
    } else {
        let g = gate_specs(&mut r);
        serde_json::to_value(Case { mode: "gate".into(), st: None, entropy: Entropy::draw(&mut re), gate: Some(g), seed: r.u64(), only: None }).unwrap()
    }
}

fn lift(v: &[F]) -> Vec<FE> {
    v.iter().map(|x| <FE as FieldExtension<D>>::from_basefield(*x)).collect()
}

fn eval_ext(g: &GateRef<F, D>, consts: &[F], wires: &[F], pih: &HashOut<F>) -> Result<Vec<FE>, String> {
    let (lc, lw) = (lift(consts), lift(wires));
    guarded(|| g.0.eval_unfiltered(EvaluationVars { local_constants: &lc, local_wires: &lw, public_inputs_hash: pih }))
}

fn viol(rep: &mut Report, case: &Case, gate_id: &str, oracle: &str, only: Option<(usize, usize)>, detail: String) {
    let mut c = case.clone();
    c.only = only;
    let gid = gate_id.split(|ch| ch == ' ' || ch == '{' || ch == '<' || ch == '(').next().unwrap_or("");
    rep.violation("C07", oracle, &format!("C07|{oracle}|{gid}"), format!("{gate_id}: {detail}"), serde_json::to_value(&c).unwrap());
}

/// Wires of `row` written by the gate's own generators when run on a complete witness.
fn generator_writes(g: &GateRef<F, D>, row: usize, consts: &[F], w: &PartitionWitness<F>, used_ops: Option<usize>) -> Result<Vec<(Target, F)>, String> {
    let mut gens = g.0.generators(row, consts);
    if let Some(k) = used_ops {
        gens.truncate(k);
    }
    let mut out = Vec::new();
    for gen in gens {
        let mut buf = GeneratedValues::empty();
        let done = guarded(|| gen.0.run(w, &mut buf))?;
        if !done {
            return Err("generator not ready on a complete witness".into());
        }
        out.extend(buf.target_values.drain(..));
    }
    Ok(out)
}

struct RowCheck<'a> {
    gate: &'a GateRef<F, D>,
    consts: Vec<F>,
    wires: Vec<F>,
    pih: HashOut<F>,
    /// (wire column, honest value) written by the gate's generators
    written: Vec<(usize, F)>,
    row_label: usize,
}

fn replacement_values(v: F, r: &mut Rng) -> Vec<F> {
    let mut c = vec![v + F::ONE, F::ZERO, F::ONE, F::NEG_ONE, F::from_canonical_u64(r.felt())];
    c.retain(|x| *x != v);
    c.dedup();
    c
}

/// The pinning oracle on one row, plus evaluator lock-step on the honest and perturbed rows.
fn check_row(rc: &RowCheck, case: &Case, sig: u64, r: &mut Rng, rep: &mut Report, lockstep: bool) {
    let id = rc.gate.0.id();
    let nc = rc.gate.0.num_constraints();
    let honest = match eval_ext(rc.gate, &rc.consts, &rc.wires, &rc.pih) {
        Ok(v) => v,
        Err(e) => return viol(rep, case, &id, "evaluator_panicked", None, e),
    };
    rep.case(sig, true);
    if honest.len() != nc {
        return viol(rep, case, &id, "wrong_number_of_constraints", None, format!("declares {nc}, returns {}", honest.len()));
    }
    if let Some(k) = honest.iter().position(|x| *x != FE::ZERO) {
        return viol(rep, case, &id, "generator_filled_row_violates_constraints", None, format!("row {} constraint {k}", rc.row_label));
    }
    let mut rows_for_lockstep: Vec<Vec<F>> = vec![rc.wires.clone()];
    for &(col, v) in &rc.written {
        if let Some((_, oc)) = case.only {
            if oc != col {
                continue;
            }
        }
        for nv in replacement_values(v, r) {
            let mut w2 = rc.wires.clone();
            w2[col] = nv;
            rep.fault("generator_written_wire_replaced");
            rep.case(sig ^ (col as u64) << 20 ^ nv.to_canonical_u64(), true);
            match eval_ext(rc.gate, &rc.consts, &w2, &rc.pih) {
                Ok(out) => {
                    if out.iter().all(|x| *x == FE::ZERO) {
                        viol(rep, case, &id, "replaced_value_not_pinned_by_row_constraints", Some((rc.row_label, col)), format!("row {} wire {col}: {} -> {}", rc.row_label, v, nv));
                    }
                }
                Err(e) => viol(rep, case, &id, "evaluator_panicked", Some((rc.row_label, col)), e),
            }
            if rows_for_lockstep.len() < 4 {
                rows_for_lockstep.push(w2);
            }
        }
    }
    if !lockstep {
        return;
    }
    // ---- evaluator lock-step: extension vs base batch on the same (base-field) rows
    let random_row: Vec<F> = (0..rc.wires.len()).map(|_| F::from_canonical_u64(r.felt_biased())).collect();
    rows_for_lockstep.push(random_row);
    for bs in [1usize, 4, 5, 8, 9, 32] {
        let rows: Vec<&Vec<F>> = (0..bs).map(|k| &rows_for_lockstep[k % rows_for_lockstep.len()]).collect();
        let nwires = rc.wires.len();
        let mut wb = vec![F::ZERO; nwires * bs];
        let mut cb = vec![F::ZERO; rc.consts.len() * bs];
        for (k, row) in rows.iter().enumerate() {
            for i in 0..nwires {
                wb[i * bs + k] = row[i];
            }
            for i in 0..rc.consts.len() {
                cb[i * bs + k] = rc.consts[i];
            }
        }
        rep.case(sig ^ hash_str("lockstep_base") ^ bs as u64, true);
        let res = match guarded(|| rc.gate.0.eval_unfiltered_base_batch(EvaluationVarsBaseBatch::new(bs, &cb, &wb, &rc.pih))) {
            Ok(v) => v,
            Err(e) => {
                viol(rep, case, &id, "base_batch_evaluator_panicked", None, e);
                continue;
            }
        };
        if res.len() != nc * bs {
            viol(rep, case, &id, "base_batch_wrong_number_of_constraints", None, format!("{} != {}*{}", res.len(), nc, bs));
            continue;
        }
        for (k, row) in rows.iter().enumerate() {
            let ext = match eval_ext(rc.gate, &rc.consts, row, &rc.pih) {
                Ok(v) => v,
                Err(_) => continue,
            };
            for j in 0..nc {
                let b = res[j * bs + k];
                if <FE as FieldExtension<D>>::from_basefield(b) != ext[j] {
                    viol(rep, case, &id, "base_batch_and_extension_evaluators_disagree", None, format!("batch {bs} point {k} constraint {j}"));
                    return;
                }
            }
        }
    }
    // ---- in-circuit evaluator on the same rows (a circuit that evaluates the gate's constraints),
    // under the standard and under narrow / wide row configurations (gadget fast paths depend on the row width)
    let (nw, nrw) = *r.pick(&[(135usize, 80usize), (135, 80), (135, 37), (135, 40), (135, 47), (143, 100), (234, 80)]);
    let cfg = CircuitConfig { num_wires: nw, num_routed_wires: nrw, ..CircuitConfig::standard_recursion_config() };
    rep.probe(&format!("c07.circuit_evaluator_routed_wires.{nrw}"));
    let built = guarded(|| {
        let mut b = CircuitBuilder::<F, D>::new(cfg);
        let wt = b.add_virtual_extension_targets(rc.wires.len());
        let ct = b.add_virtual_extension_targets(rc.consts.len());
        let ht = b.add_virtual_hash();
        let outs = rc.gate.0.eval_unfiltered_circuit(&mut b, EvaluationTargets { local_constants: &ct, local_wires: &wt, public_inputs_hash: &ht });
        // keep the circuit cheap: no proof is made, only witness generation
        let data = b.build::<PC>();
        (data, wt, ct, ht, outs)
    });
    let (data, wt, ct, ht, outs) = match built {
        Ok(x) => x,
        Err(e) => {
            if nrw == 80 {
                return viol(rep, case, &id, "circuit_evaluator_panicked", None, e);
            }
            // a non-standard row width may be too narrow for the evaluating circuit: a builder precondition
            rep.skip("circuit evaluator: row configuration refused by the builder");
            return;
        }
    };
    rep.case(sig ^ hash_str("lockstep_circuit"), true);
    if outs.len() != nc {
        return viol(rep, case, &id, "circuit_evaluator_wrong_number_of_constraints", None, format!("{} != {nc}", outs.len()));
    }
    for row in rows_for_lockstep.iter().take(3) {
        // extension-valued point: wires lifted plus a random extension offset on the non-honest rows
        let mut pw = PartialWitness::new();
        let lw: Vec<FE> = lift(row);
        for (t, v) in wt.iter().zip(&lw) {
            pw.set_extension_target(*t, *v).unwrap();
        }
        for (t, v) in ct.iter().zip(lift(&rc.consts)) {
            pw.set_extension_target(*t, v).unwrap();
        }
        pw.set_hash_target(ht, rc.pih).unwrap();
        case.entropy.arm();
        let w = match guarded(|| generate_partial_witness(pw, &data.prover_only, &data.common)) {
            Ok(Ok(w)) => w,
            _ => {
                viol(rep, case, &id, "circuit_evaluator_witness_generation_failed", None, String::new());
                return;
            }
        };
        let ext = match eval_ext(rc.gate, &rc.consts, row, &rc.pih) {
            Ok(v) => v,
            Err(_) => continue,
        };
        for j in 0..nc {
            if w.get_extension_target(outs[j]) != ext[j] {
                viol(rep, case, &id, "circuit_and_native_evaluators_disagree", None, format!("constraint {j}"));
                return;
            }
        }
    }
}

fn exec_circuit(case: &Case, rep: &mut Report) {
    let st = case.st.as_ref().unwrap();
    let st = &Statement { prog: st.prog.clone(), cfg: Cfg { hash: "poseidon".into(), ..st.cfg.clone() } };
    let built = match build::<PC>(st) {
        BuildOutcome::Ok(b) => b,
        _ => {
            rep.skip("base not buildable (reported by C01)");
            return;
        }
    };
    let data = &built.data;
    let common = &data.common;
    case.entropy.arm();
    let w = match guarded(|| generate_partial_witness(built.honest_witness(st), &data.prover_only, &data.common)) {
        Ok(Ok(w)) => w,
        _ => {
            rep.skip("witness generation failed (reported by C01)");
            return;
        }
    };
    let (n, nw) = (common.degree(), common.config.num_wires);
    // complete the witness: unset wires read as zero (as the prover commits them)
    let ident: Vec<usize> = (0..w.representative_map.len()).collect();
    let mut full = crate::sat::ident_witness(&w, &ident, &[]);
    for i in 0..n * nw {
        if full.values[i].is_none() {
            full.values[i] = Some(F::ZERO);
        }
    }
    let pis = crate::sat::public_inputs_of(data, &w);
    let pih = <<PC as GenericConfig<D>>::InnerHasher as Hasher<F>>::hash_no_pad(&pis);
    let sel = serde_json::to_value(&common.selectors_info).unwrap();
    let sel_idx: Vec<usize> = sel["selector_indices"].as_array().unwrap().iter().map(|v| v.as_u64().unwrap() as usize).collect();
    let consts: Vec<Vec<F>> = data.prover_only.constants_sigmas_commitment.polynomials[..common.num_constants].iter().map(|p| p.clone().fft().values).collect();
    let num_sel = sel["groups"].as_array().unwrap().len();
    let mut r = Rng::new(case.seed);
    let base_sig = prog_shape(&st.prog) ^ hash_str(&built.cfg.class());
    let mut seen_gate: std::collections::BTreeMap<String, usize> = Default::default();
    for row in 0..n {
        if let Some((orow, _)) = case.only {
            if orow != row {
                continue;
            }
        }
        for (j, gate) in common.gates.iter().enumerate() {
            if consts[sel_idx[j]][row].to_canonical_u64() != j as u64 {
                continue;
            }
            let id = gate.0.id();
            if gate.0.num_constraints() == 0 {
                // LookupGate / LookupTableGate / NoopGate state nothing at gate level (lookups: C08)
                continue;
            }
            let cnt = seen_gate.entry(id.clone()).or_insert(0);
            // every gate type: the first rows fully, later rows sampled
            *cnt += 1;
            if *cnt > 3 && !r.chance(1, 8) && case.only.is_none() {
                continue;
            }
            // the gate's own constants follow the selector (and lookup selector) columns
            let all_c: Vec<F> = consts.iter().map(|c| c[row]).collect();
            let gc: Vec<F> = all_c[num_sel + common.num_lookup_selectors..].to_vec();
            let wires: Vec<F> = (0..nw).map(|c| full.get_target(Target::Wire(Wire { row, column: c }))).collect();
            let writes = match generator_writes(gate, row, &gc, &full, None) {
                Ok(x) => x,
                Err(e) => {
                    rep.skip(&format!("generators of {} not runnable stand-alone: {}", id.split(' ').next().unwrap_or(""), e.chars().take(40).collect::<String>()));
                    continue;
                }
            };
            // only writes that landed in this row and that agree with the witness (unused slots are not written by the circuit)
            let written: Vec<(usize, F)> = writes
                .iter()
                .filter_map(|(t, v)| match t {
                    Target::Wire(Wire { row: rr, column }) if *rr == row && wires[*column] == *v => Some((*column, *v)),
                    _ => None,
                })
                .collect();
            rep.probe(&format!("c07.circuit_row.{}", id.split(|ch| ch == ' ' || ch == '{' || ch == '<' || ch == '(').next().unwrap()));
            let rcx = RowCheck { gate, consts: gc, wires, pih, written, row_label: row };
            check_row(&rcx, case, base_sig ^ (row as u64) << 32 ^ hash_str(&id), &mut r, rep, *cnt <= 1);
        }
    }
    rep.sample(json!({"mode": "circuit", "config": built.cfg.class(), "rows": n, "gates": common.gates.iter().map(|g| g.0.id()).collect::<Vec<_>>()}));
}

/// Stand-alone row: restricted input wires are set by `fix`, everything else is random; the gate's
/// generators fill in the rest (iterated to a fixed point).
fn standalone<G: Gate<F, D>>(case: &Case, rep: &mut Report, mk: &dyn Fn() -> G, fix: &dyn Fn(&mut Vec<F>, &mut Rng), restricted: bool) {
    let mut r = Rng::new(case.seed);
    let gref = GateRef::new(mk());
    let id = gref.0.id();
    let nwires = gref.0.num_wires();
    let consts: Vec<F> = (0..gref.0.num_constants()).map(|_| F::from_canonical_u64(r.felt_biased())).collect();
    let pih = HashOut { elements: [F::from_canonical_u64(r.felt()), F::from_canonical_u64(r.felt()), F::from_canonical_u64(r.felt()), F::from_canonical_u64(r.felt())] };
    let base_sig = hash_value(&json!(case.gate)) ^ case.seed;
    rep.probe(&format!("c07.gate.{}", case.gate.as_ref().unwrap().0));
    for rep_i in 0..3 {
        let mut wires: Vec<F> = (0..nwires).map(|_| F::from_canonical_u64(if rep_i == 0 { r.felt() } else { r.felt_biased() })).collect();
        fix(&mut wires, &mut r);
        // constant wires of the row are tied to the row's constants (the builder adds a ConstantGenerator for each)
        for (ci, wi) in gref.0.extra_constant_wires() {
            wires[wi] = consts[ci];
        }
        let ident: Vec<usize> = (0..nwires).collect();
        let mut w = PartitionWitness::new(nwires, 1, &ident);
        let mut written: std::collections::BTreeMap<usize, F> = Default::default();
        let mut ok = true;
        for _round in 0..4 {
            for (i, v) in wires.iter().enumerate() {
                w.values[i] = Some(*v);
            }
            match generator_writes(&gref, 0, &consts, &w, None) {
                Ok(ws) => {
                    let mut changed = false;
                    for (t, v) in ws {
                        if let Target::Wire(Wire { row: 0, column }) = t {
                            if wires[column] != v {
                                changed = true;
                            }
                            wires[column] = v;
                            written.insert(column, v);
                        }
                    }
                    if !changed {
                        break;
                    }
                }
                Err(e) => {
                    if restricted {
                        rep.skip("input domain of a restricted gate not met");
                    } else {
                        viol(rep, case, &id, "generator_panicked_on_unrestricted_inputs", None, e);
                    }
                    ok = false;
                    break;
                }
            }
        }
        if !ok {
            continue;
        }
        let honest = eval_ext(&gref, &consts, &wires, &pih);
        if restricted && !matches!(&honest, Ok(v) if v.iter().all(|x| *x == FE::ZERO)) {
            // layout assumption of the harness about a restricted input wire may be stale: not a finding
            rep.skip("restricted gate: harness could not produce a satisfying row");
            continue;
        }
        let rcx = RowCheck { gate: &gref, consts: consts.clone(), wires, pih, written: written.into_iter().collect(), row_label: rep_i };
        check_row(&rcx, case, base_sig ^ rep_i as u64, &mut r, rep, rep_i == 0);
    }
    // declared degree (library's own low-degree test helper, observed through catch_unwind)
    rep.case(base_sig ^ hash_str("degree"), true);
    case.entropy.arm();
    if let Err(e) = guarded(|| plonky2::gates::gate_testing::test_low_degree::<F, G, D>(mk())) {
        viol(rep, case, &id, "constraint_degree_exceeds_declared_degree", None, e);
    }
    rep.sample(json!({"mode": "gate", "gate": case.gate, "id": id, "wires": nwires, "constraints": gref.0.num_constraints(), "degree": gref.0.degree()}));
}

/// Evaluator lock-step over another extension degree (the gates are generic in D; Goldilocks also has a quartic and a
/// quintic extension): the extension evaluator returns exactly `num_constraints()` values and the base-batch evaluator
/// agrees with it on base-field rows.
/// The gate as `with_max_degree` (crate-private) builds it: the smallest degree with the same number of intermediates.
fn coset_gate<const DD: usize>(p: &[usize]) -> CosetInterpolationGate<F, DD>
where
    F: Extendable<DD>,
{
    let mut g = CosetInterpolationGate::<F, DD>::new(p[0]);
    let n_points = 1usize << p[0];
    let max_degree = p.get(1).copied().unwrap_or(n_points).max(2);
    let n_intermediates = (n_points - 2) / (max_degree - 1);
    g.degree = (n_points - 2) / (n_intermediates + 1) + 2;
    g
}

fn lockstep_other_degree<const DD: usize, G: Gate<F, DD>>(g: &G, r: &mut Rng) -> Result<(), String>
where
    F: Extendable<DD>,
{
    use plonky2::field::extension::FieldExtension;
    type E<const N: usize> = <F as Extendable<N>>::Extension;
    let (nw, ncst, nc) = (g.num_wires(), g.num_constants(), g.num_constraints());
    let pih = HashOut { elements: [F::from_canonical_u64(r.felt()), F::from_canonical_u64(r.felt()), F::from_canonical_u64(r.felt()), F::from_canonical_u64(r.felt())] };
    for bs in [1usize, 5] {
        let rows: Vec<Vec<F>> = (0..bs).map(|_| (0..nw).map(|_| F::from_canonical_u64(r.felt_biased())).collect()).collect();
        let consts: Vec<F> = (0..ncst).map(|_| F::from_canonical_u64(r.felt_biased())).collect();
        let mut wb = vec![F::ZERO; nw * bs];
        let mut cb = vec![F::ZERO; ncst * bs];
        for (k, row) in rows.iter().enumerate() {
            for i in 0..nw {
                wb[i * bs + k] = row[i];
            }
            for i in 0..ncst {
                cb[i * bs + k] = consts[i];
            }
        }
        let base = guarded(|| g.eval_unfiltered_base_batch(EvaluationVarsBaseBatch::new(bs, &cb, &wb, &pih))).map_err(|e| format!("D={DD}: base-batch evaluator panicked: {e}"))?;
        if base.len() != nc * bs {
            return Err(format!("D={DD}: base-batch evaluator returns {} values for {bs} rows, {nc} constraints declared", base.len()));
        }
        for (k, row) in rows.iter().enumerate() {
            let lw: Vec<E<DD>> = row.iter().map(|x| <E<DD> as FieldExtension<DD>>::from_basefield(*x)).collect();
            let lc: Vec<E<DD>> = consts.iter().map(|x| <E<DD> as FieldExtension<DD>>::from_basefield(*x)).collect();
            let ext = guarded(|| g.eval_unfiltered(EvaluationVars { local_constants: &lc, local_wires: &lw, public_inputs_hash: &pih })).map_err(|e| format!("D={DD}: extension evaluator panicked: {e}"))?;
            if ext.len() != nc {
                return Err(format!("D={DD}: extension evaluator returns {} values, {nc} constraints declared", ext.len()));
            }
            for i in 0..nc {
                if ext[i] != <E<DD> as FieldExtension<DD>>::from_basefield(base[i * bs + k]) {
                    return Err(format!("D={DD}: constraint {i} differs between the base-batch and the extension evaluator (batch {bs}, row {k})"));
                }
            }
        }
    }
    Ok(())
}

fn other_degrees(case: &Case, rep: &mut Report) {
    let (kind, p) = case.gate.clone().unwrap();
    let mut r = Rng::new(case.seed ^ 0xd4d5);
    let mut res: Vec<Result<(), String>> = Vec::new();
    macro_rules! both {
        ($mk4:expr, $mk5:expr) => {{
            res.push(lockstep_other_degree::<4, _>(&$mk4, &mut r));
            res.push(lockstep_other_degree::<5, _>(&$mk5, &mut r));
        }};
    }
    match kind.as_str() {
        "ArithmeticGate" => both!(ArithmeticGate { num_ops: p[0] }, ArithmeticGate { num_ops: p[0] }),
        "ArithmeticExtensionGate" => both!(ArithmeticExtensionGate::<4> { num_ops: p[0] }, ArithmeticExtensionGate::<5> { num_ops: p[0] }),
        "MulExtensionGate" => both!(MulExtensionGate::<4> { num_ops: p[0] }, MulExtensionGate::<5> { num_ops: p[0] }),
        "ConstantGate" => both!(ConstantGate::new(p[0]), ConstantGate::new(p[0])),
        "ReducingGate" => both!(ReducingGate::<4>::new(p[0]), ReducingGate::<5>::new(p[0])),
        "ReducingExtensionGate" => both!(ReducingExtensionGate::<4>::new(p[0]), ReducingExtensionGate::<5>::new(p[0])),
        "CosetInterpolationGate" => both!(coset_gate::<4>(&p), coset_gate::<5>(&p)),
        "ExponentiationGate" => both!(ExponentiationGate::<F, 4>::new(p[0]), ExponentiationGate::<F, 5>::new(p[0])),
        "PoseidonGate" => both!(PoseidonGate::<F, 4>::new(), PoseidonGate::<F, 5>::new()),
        "PoseidonMdsGate" => both!(PoseidonMdsGate::<F, 4>::new(), PoseidonMdsGate::<F, 5>::new()),
        _ => return,
    }
    rep.fault("other_extension_degree_lockstep");
    rep.case(hash_str(&kind) ^ hash_value(&json!(p)) ^ hash_str("other_degrees"), true);
    for e in res.into_iter().filter_map(|x| x.err()) {
        viol(rep, case, &kind, "evaluators_disagree_in_another_extension_degree", None, e);
    }
}

fn exec_gate(case: &Case, rep: &mut Report) {
    if case.only.is_none() {
        other_degrees(case, rep);
    }
    let (kind, p) = case.gate.clone().unwrap();
    let none = |_: &mut Vec<F>, _: &mut Rng| {};
    match kind.as_str() {
        "ArithmeticGate" => standalone(case, rep, &|| ArithmeticGate { num_ops: p[0] }, &none, false),
        "ArithmeticExtensionGate" => standalone(case, rep, &|| ArithmeticExtensionGate::<D> { num_ops: p[0] }, &none, false),
        "MulExtensionGate" => standalone(case, rep, &|| MulExtensionGate::<D> { num_ops: p[0] }, &none, false),
        "ConstantGate" => standalone(case, rep, &|| ConstantGate::new(p[0]), &none, false),
        "ReducingGate" => standalone(case, rep, &|| ReducingGate::<D>::new(p[0]), &none, false),
        "ReducingExtensionGate" => standalone(case, rep, &|| ReducingExtensionGate::<D>::new(p[0]), &none, false),
        "PoseidonMdsGate" => standalone(case, rep, &|| PoseidonMdsGate::<F, D>::new(), &none, false),
        "PoseidonGate" => standalone(case, rep, &|| PoseidonGate::<F, D>::new(), &|w: &mut Vec<F>, r: &mut Rng| w[24] = F::from_bool(r.chance(1, 2)), true),
        "CosetInterpolationGate" => standalone(case, rep, &|| coset_gate::<D>(&p), &|w: &mut Vec<F>, r: &mut Rng| {
            if w[0] == F::ZERO {
                w[0] = F::from_canonical_u64(1 + r.below(1 << 40));
            }
        }, false),
        "ExponentiationGate" => {
            let nb = p[0];
            standalone(case, rep, &|| ExponentiationGate::<F, D>::new(nb), &move |w: &mut Vec<F>, r: &mut Rng| {
                for i in 0..nb {
                    w[1 + i] = F::from_bool(r.chance(1, 2));
                }
            }, true)
        }
        "RandomAccessGate" => {
            let cfg = CircuitConfig { num_wires: p[1], num_routed_wires: p[2], num_constants: p[3], ..CircuitConfig::standard_recursion_config() };
            let g = RandomAccessGate::<F, D>::new_from_config(&cfg, p[0]);
            if g.num_copies == 0 {
                rep.skip("RandomAccessGate: row too narrow for one copy");
                return;
            }
            let (bits, copies) = (g.bits, g.num_copies);
            standalone(case, rep, &|| RandomAccessGate::<F, D>::new_from_config(&cfg, p[0]), &move |w: &mut Vec<F>, r: &mut Rng| {
                for c in 0..copies {
                    w[(2 + (1 << bits)) * c] = F::from_canonical_u64(r.below(1 << bits));
                }
            }, true)
        }
        k if k.starts_with("BaseSumGate") => {
            let limbs = p[0];
            macro_rules! bs {
                ($b:expr) => {{
                    let cap: u128 = ($b as u128).pow(limbs as u32).min(1u128 << 63);
                    standalone(case, rep, &|| BaseSumGate::<$b>::new(limbs), &move |w: &mut Vec<F>, r: &mut Rng| {
                        w[0] = F::from_canonical_u64(match r.below(4) { 0 => 0, 1 => (cap - 1) as u64, _ => r.below(cap as u64) });
                    }, true)
                }};
            }
            match k {
                "BaseSumGate2" => bs!(2),
                "BaseSumGate3" => bs!(3),
                "BaseSumGate4" => bs!(4),
                "BaseSumGate8" => bs!(8),
                _ => bs!(16),
            }
        }
        _ => rep.skip("unknown gate kind"),
    }
}

pub fn exec(case: &Value, rep: &mut Report) {
    let case: Case = serde_json::from_value(case.clone()).expect("malformed C07 case");
    if case.mode == "circuit" {
        exec_circuit(&case, rep)
    } else {
        exec_gate(&case, rep)
    }
}

pub fn shrink(case: &Value) -> Vec<Value> {
    let c: Case = serde_json::from_value(case.clone()).unwrap();
    let mut out = Vec::new();
    if let Some((k, p)) = &c.gate {
        for i in 0..p.len() {
            if p[i] > 1 && k != "RandomAccessGate" {
                let mut d = c.clone();
                let mut q = p.clone();
                q[i] -= 1;
                d.gate = Some((k.clone(), q));
                d.only = None;
                out.push(d);
            }
        }
    }
    out.into_iter().map(|d| serde_json::to_value(d).unwrap()).collect()
}
