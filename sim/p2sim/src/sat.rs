//! SAT — an independent statement checker for a full wire matrix (DESIGN §3.4): gate constraints on
//! every row, copy classes single-valued and sigma = one cycle per class, lookup pairs in their
//! table, table rows carrying the declared table. Built from public data only.
use std::collections::BTreeMap;

use plonky2::field::extension::FieldExtension;
use plonky2::field::types::{Field, PrimeField64};
use plonky2::iop::target::Target;
use plonky2::iop::wire::Wire;
use plonky2::iop::witness::{MatrixWitness, PartitionWitness, Witness};
use plonky2::gates::lookup::LookupGate;
use plonky2::gates::lookup_table::LookupTableGate;
use plonky2::plonk::circuit_data::CircuitData;
use plonky2::plonk::config::{GenericConfig, Hasher};
use plonky2::plonk::vars::EvaluationVars;

use crate::prog::{D, F, FE};

#[derive(Debug, Clone, PartialEq)]
pub enum Sat {
    Ok,
    Gate { row: usize, gate: String, constraint: usize },
    Copy { row: usize, col: usize, row2: usize, col2: usize },
    Sigma(String),
    Lookup { row: usize, slot: usize },
    Table { row: usize, slot: usize },
}

impl Sat {
    pub fn ok(&self) -> bool {
        matches!(self, Sat::Ok)
    }
    pub fn kind(&self) -> &'static str {
        match self {
            Sat::Ok => "ok",
            Sat::Gate { .. } => "gate",
            Sat::Copy { .. } => "copy",
            Sat::Sigma(_) => "sigma",
            Sat::Lookup { .. } => "lookup",
            Sat::Table { .. } => "table",
        }
    }
}

pub struct SatCtx {
    sel_idx: Vec<usize>,
    groups: Vec<std::ops::Range<usize>>,
    consts: Vec<Vec<F>>,
    /// copy classes over routed wire cells: class id per (row, col)
    class_of: Vec<usize>,
    pub classes: Vec<Vec<(usize, usize)>>,
    sigma_ok: Result<(), String>,
}

impl SatCtx {
    pub fn new<C: GenericConfig<D, F = F>>(data: &CircuitData<F, C, D>) -> SatCtx {
        let common = &data.common;
        let n = common.degree();
        let nw = common.config.num_wires;
        let nr = common.config.num_routed_wires;
        let sel = serde_json::to_value(&common.selectors_info).unwrap();
        let sel_idx: Vec<usize> = sel["selector_indices"].as_array().unwrap().iter().map(|v| v.as_u64().unwrap() as usize).collect();
        let groups: Vec<std::ops::Range<usize>> = sel["groups"]
            .as_array()
            .unwrap()
            .iter()
            .map(|g| g["start"].as_u64().unwrap() as usize..g["end"].as_u64().unwrap() as usize)
            .collect();
        let consts: Vec<Vec<F>> =
            data.prover_only.constants_sigmas_commitment.polynomials[..common.num_constants].iter().map(|p| p.clone().fft().values).collect();
        // classes from the representative map (Forest parents)
        let rep = &data.prover_only.representative_map;
        let mut by_rep: BTreeMap<usize, Vec<(usize, usize)>> = BTreeMap::new();
        let mut class_of = vec![usize::MAX; n * nr];
        for r in 0..n {
            for c in 0..nr {
                let idx = Target::Wire(Wire { row: r, column: c }).index(nw, n);
                by_rep.entry(rep[idx]).or_default().push((r, c));
            }
        }
        let classes: Vec<Vec<(usize, usize)>> = by_rep.into_values().collect();
        for (k, cl) in classes.iter().enumerate() {
            for &(r, c) in cl {
                class_of[r * nr + c] = k;
            }
        }
        // sigma (a second code path: get_sigma_map) must be exactly one cycle per class
        let mut pos: BTreeMap<u64, (usize, usize)> = BTreeMap::new();
        for c in 0..nr {
            for r in 0..n {
                pos.insert((common.k_is[c] * data.prover_only.subgroup[r]).to_canonical_u64(), (r, c));
            }
        }
        let mut sigma_ok = Ok(());
        'outer: for (k, cl) in classes.iter().enumerate() {
            let start = cl[0];
            let mut cur = start;
            for step in 0..cl.len() {
                let s = data.prover_only.sigmas[cur.0][cur.1].to_canonical_u64();
                let nxt = match pos.get(&s) {
                    Some(p) => *p,
                    None => {
                        sigma_ok = Err(format!("sigma value at {:?} is not a wire position", cur));
                        break 'outer;
                    }
                };
                if class_of[nxt.0 * nr + nxt.1] != k {
                    sigma_ok = Err(format!("sigma maps {:?} out of its copy class", cur));
                    break 'outer;
                }
                if nxt == start && step + 1 != cl.len() {
                    sigma_ok = Err(format!("sigma cycle through {:?} has length {} but the class has {} members", start, step + 1, cl.len()));
                    break 'outer;
                }
                cur = nxt;
            }
            if cur != start {
                sigma_ok = Err(format!("sigma does not close the cycle of the class of {:?}", start));
                break;
            }
        }
        SatCtx { sel_idx, groups, consts, class_of, classes, sigma_ok }
    }

    pub fn check<C: GenericConfig<D, F = F>>(&self, data: &CircuitData<F, C, D>, w: &MatrixWitness<F>, pis: &[F]) -> Sat {
        let common = &data.common;
        let n = common.degree();
        let nw = common.config.num_wires;
        let num_sel = self.groups.len();
        if let Err(e) = &self.sigma_ok {
            return Sat::Sigma(e.clone());
        }
        let pih = <<C as GenericConfig<D>>::InnerHasher as Hasher<F>>::hash_no_pad(pis);
        for row in 0..n {
            let lc: Vec<FE> = self.consts.iter().map(|c| <FE as FieldExtension<D>>::from_basefield(c[row])).collect();
            let lw: Vec<FE> = (0..nw).map(|c| <FE as FieldExtension<D>>::from_basefield(w.get_wire(row, c))).collect();
            for (j, gate) in common.gates.iter().enumerate() {
                // only the gate that the selector constant places on this row (filters of all others vanish)
                if self.consts[self.sel_idx[j]][row].to_canonical_u64() != j as u64 {
                    continue;
                }
                let vars = EvaluationVars { local_constants: &lc, local_wires: &lw, public_inputs_hash: &pih };
                let out = gate.0.eval_filtered(vars, j, self.sel_idx[j], self.groups[self.sel_idx[j]].clone(), num_sel, common.num_lookup_selectors);
                if let Some(k) = out.iter().position(|x| *x != FE::ZERO) {
                    return Sat::Gate { row, gate: gate.0.id(), constraint: k };
                }
            }
        }
        for cl in &self.classes {
            let (r0, c0) = cl[0];
            let v = w.get_wire(r0, c0);
            for &(r, c) in &cl[1..] {
                if w.get_wire(r, c) != v {
                    return Sat::Copy { row: r0, col: c0, row2: r, col2: c };
                }
            }
        }
        // lookups, from the table data
        let slots = (common.config.num_routed_wires / 2);
        let tslots = (common.config.num_routed_wires / 3);
        for (t, lw) in data.prover_only.lookup_rows.iter().enumerate() {
            let table = &common.luts[t];
            for row in lw.last_lu_gate..lw.last_lut_gate {
                for s in 0..slots {
                    let i = w.get_wire(row, LookupGate::wire_ith_looking_inp(s)).to_canonical_u64();
                    let o = w.get_wire(row, LookupGate::wire_ith_looking_out(s)).to_canonical_u64();
                    if !table.iter().any(|(a, b)| *a as u64 == i && *b as u64 == o) {
                        return Sat::Lookup { row, slot: s };
                    }
                }
            }
            for (e, (a, b)) in table.iter().enumerate() {
                let row = lw.first_lut_gate - e / tslots;
                let s = e % tslots;
                let i = w.get_wire(row, LookupTableGate::wire_ith_looked_inp(s)).to_canonical_u64();
                let o = w.get_wire(row, LookupTableGate::wire_ith_looked_out(s)).to_canonical_u64();
                if i != *a as u64 || o != *b as u64 {
                    return Sat::Table { row, slot: s };
                }
            }
        }
        Sat::Ok
    }
}

/// A witness in which every cell is its own partition (identity representative map), filled from
/// an honest witness, with `edits` applied: every cell can be set independently.
pub fn ident_witness<'a>(honest: &PartitionWitness<F>, ident: &'a [usize], edits: &[(usize, F)]) -> PartitionWitness<'a, F> {
    let mut w = PartitionWitness::new(honest.num_wires, honest.degree, ident);
    for idx in 0..ident.len() {
        w.values[idx] = honest.values[honest.representative_map[idx]];
    }
    for (idx, v) in edits {
        w.values[*idx] = Some(*v);
    }
    w
}

pub fn public_inputs_of<C: GenericConfig<D, F = F>>(data: &CircuitData<F, C, D>, w: &PartitionWitness<F>) -> Vec<F> {
    data.prover_only.public_inputs.iter().map(|t| w.try_get_target(*t).unwrap_or(F::ZERO)).collect()
}
