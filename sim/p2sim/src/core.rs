//! Simulator core: the one seeded PRNG, run seeds, arming of the scheduler / entropy seams,
//! run reports, panic capture.
use std::collections::BTreeMap;
use std::panic::{catch_unwind, AssertUnwindSafe};

use serde::{Deserialize, Serialize};
use serde_json::Value;

pub const P: u64 = 0xFFFF_FFFF_0000_0001;

#[inline]
pub fn splitmix(x: &mut u64) -> u64 {
    *x = x.wrapping_add(0x9E3779B97F4A7C15);
    let mut z = *x;
    z = (z ^ (z >> 30)).wrapping_mul(0xBF58476D1CE4E5B9);
    z = (z ^ (z >> 27)).wrapping_mul(0x94D049BB133111EB);
    z ^ (z >> 31)
}

pub fn fnv(bytes: &[u8]) -> u64 {
    let mut h: u64 = 0xcbf29ce484222325;
    for b in bytes {
        h ^= *b as u64;
        h = h.wrapping_mul(0x100000001b3);
    }
    h
}

pub fn hash_str(s: &str) -> u64 {
    let mut x = fnv(s.as_bytes());
    splitmix(&mut x)
}

pub fn hash_value(v: &Value) -> u64 {
    hash_str(&v.to_string())
}

/// Seeded PRNG; every choice of a run derives from it.
#[derive(Clone, Debug)]
pub struct Rng(pub u64);

impl Rng {
    pub fn new(seed: u64) -> Self {
        Rng(seed)
    }
    /// Independent sub-stream named by a label, so that shrinking one stream does not shift others.
    pub fn sub(&self, label: &str) -> Rng {
        let mut x = self.0 ^ fnv(label.as_bytes()).rotate_left(17);
        let a = splitmix(&mut x);
        Rng(a)
    }
    pub fn u64(&mut self) -> u64 {
        splitmix(&mut self.0)
    }
    pub fn below(&mut self, n: u64) -> u64 {
        if n == 0 {
            0
        } else {
            self.u64() % n
        }
    }
    pub fn usize(&mut self, n: usize) -> usize {
        self.below(n as u64) as usize
    }
    /// Inclusive range.
    pub fn range(&mut self, lo: usize, hi: usize) -> usize {
        lo + self.usize(hi - lo + 1)
    }
    pub fn chance(&mut self, num: u64, den: u64) -> bool {
        self.below(den) < num
    }
    pub fn pick<'a, T>(&mut self, xs: &'a [T]) -> &'a T {
        &xs[self.usize(xs.len())]
    }
    /// Canonical field element, uniformly random.
    pub fn felt(&mut self) -> u64 {
        loop {
            let v = self.u64();
            if v < P {
                return v;
            }
        }
    }
    /// Boundary-biased canonical field element.
    pub fn felt_biased(&mut self) -> u64 {
        match self.below(10) {
            0 => 0,
            1 => 1,
            2 => *self.pick(&[2, P - 1, P - 2]),
            3 => {
                let k = *self.pick(&[8u32, 16, 31, 32, 33, 63]);
                1u64 << k
            }
            4 => {
                let k = *self.pick(&[8u32, 16, 31, 32, 33, 63]);
                (1u64 << k) - 1
            }
            5 => self.below(256),
            6 => self.below(1 << 16),
            _ => self.felt(),
        }
    }
    pub fn shuffle<T>(&mut self, xs: &mut [T]) {
        for i in (1..xs.len()).rev() {
            let j = self.usize(i + 1);
            xs.swap(i, j);
        }
    }
}

pub fn run_seed(verif_seed: u64, property: &str, idx: u64) -> u64 {
    let mut x = verif_seed ^ fnv(property.as_bytes()).rotate_left(23) ^ idx.wrapping_mul(0xD6E8FEB86659FD93);
    splitmix(&mut x);
    splitmix(&mut x)
}

/// Scheduler configuration of one run (seam N1/N2).
#[derive(Clone, Debug, Serialize, Deserialize, PartialEq)]
pub struct Sched {
    pub seed: u64,
    pub workers: usize,
    #[serde(default, skip_serializing_if = "Option::is_none")]
    pub explicit: Option<Vec<u64>>,
}

/// Entropy configuration of one run (seam N3).
#[derive(Clone, Debug, Serialize, Deserialize, PartialEq)]
pub struct Entropy {
    pub seed: u64,
    /// "stream" | "zero" | "constant"
    pub mode: String,
}

pub const WORKER_CHOICES: [usize; 9] = [1, 2, 3, 4, 5, 6, 7, 8, 16];

impl Sched {
    pub fn draw(rng: &mut Rng) -> Sched {
        Sched { seed: rng.u64(), workers: *rng.pick(&WORKER_CHOICES), explicit: None }
    }
    pub fn sequential() -> Sched {
        Sched { seed: 0, workers: 1, explicit: None }
    }
    pub fn arm(&self) {
        match &self.explicit {
            Some(d) => rayon::sim::set_explicit(d.clone(), self.workers),
            None => rayon::sim::set(self.seed, self.workers),
        }
    }
}

impl Entropy {
    pub fn draw(rng: &mut Rng) -> Entropy {
        let mode = match rng.below(12) {
            0 => "zero",
            1 => "constant",
            _ => "stream",
        };
        let mut seed = rng.u64();
        if mode == "constant" {
            // low byte < 0xf0 so that rejection sampling below p terminates
            seed = (seed & !0xff) | (seed & 0xff) % 0xf0;
        }
        Entropy { seed, mode: mode.to_string() }
    }
    pub fn arm(&self) {
        let m = match self.mode.as_str() {
            "zero" => getrandom::Mode::Zero,
            "constant" => getrandom::Mode::Constant,
            _ => getrandom::Mode::Stream,
        };
        getrandom::verif_arm(Some((self.seed, m)));
    }
}

pub fn arm(s: &Sched, e: &Entropy) {
    s.arm();
    e.arm();
}

#[derive(Clone, Debug, Serialize, Deserialize)]
pub struct Violation {
    pub property: String,
    /// Violation class: which oracle fired (kept stable while minimising).
    pub oracle: String,
    pub detail: String,
    /// Key for known-findings matching (entry point + fault class).
    pub key: String,
    /// Self-contained case that `p2sim replay` re-executes.
    pub case: Value,
}

/// What one or more runs covered (merged by the driver).
#[derive(Clone, Debug, Default, Serialize, Deserialize)]
pub struct Report {
    pub runs: u64,
    pub evaluations: u64,
    /// Signature hashes of the distinct non-trivial cases.
    pub sigs: Vec<u64>,
    pub trivial: u64,
    pub faults: BTreeMap<String, u64>,
    pub probes: BTreeMap<String, u64>,
    pub violations: Vec<Violation>,
    pub samples: Vec<Value>,
    pub sched_traces: Vec<u64>,
    pub scheduler_steps: u64,
    pub entropy_bytes: u64,
    /// event-log digest: hash over every observation of every run, in order.
    pub event_digest: u64,
    pub skipped: BTreeMap<String, u64>,
    /// occurrences per violation class "oracle\u{1}key" (only the first few records of a class are kept in full)
    #[serde(default)]
    pub violation_counts: BTreeMap<String, u64>,
}

/// Full violation records kept per class and worker; further occurrences are only counted.
pub const KEEP_PER_CLASS: u64 = 3;

impl Report {
    pub fn fault(&mut self, kind: &str) {
        *self.faults.entry(kind.to_string()).or_insert(0) += 1;
    }
    pub fn probe(&mut self, name: &str) {
        *self.probes.entry(name.to_string()).or_insert(0) += 1;
    }
    pub fn probe_n(&mut self, name: &str, n: u64) {
        if n == 0 {
            return;
        }
        *self.probes.entry(name.to_string()).or_insert(0) += n;
    }
    pub fn skip(&mut self, why: &str) {
        *self.skipped.entry(why.to_string()).or_insert(0) += 1;
    }
    /// Record one evaluated case. `nontrivial`: the fault fired and the oracle was not vacuous.
    pub fn case(&mut self, sig: u64, nontrivial: bool) {
        self.evaluations += 1;
        if nontrivial {
            self.sigs.push(sig);
        } else {
            self.trivial += 1;
        }
        self.observe(sig ^ nontrivial as u64);
    }
    pub fn observe(&mut self, x: u64) {
        let mut h = self.event_digest ^ x;
        self.event_digest = splitmix(&mut h);
    }
    pub fn observe_bytes(&mut self, b: &[u8]) {
        self.observe(fnv(b));
    }
    pub fn sample(&mut self, v: Value) {
        if self.samples.len() < 3 {
            self.samples.push(v);
        }
    }
    pub fn violation(&mut self, property: &str, oracle: &str, key: &str, detail: String, case: Value) {
        self.observe(hash_str(oracle) ^ hash_str(key));
        self.violations.push(Violation {
            property: property.to_string(),
            oracle: oracle.to_string(),
            detail,
            key: key.to_string(),
            case,
        });
    }
    /// Fold the scheduler / entropy statistics of the run that just finished.
    pub fn absorb_seams(&mut self) {
        let st = rayon::sim::stats();
        self.scheduler_steps += st.decisions;
        if st.decisions > 0 {
            self.sched_traces.push(st.trace);
        }
        self.observe(st.trace);
        self.probe_n("sched.joins", st.joins);
        self.probe_n("sched.join_swapped", st.join_swapped);
        self.probe_n("sched.par_stages", st.stages);
        self.probe_n("sched.steals", st.steals);
        self.probe_n("sched.find_any_calls", st.find_any_calls);
        let c = getrandom::verif_consumed();
        self.entropy_bytes += c;
        self.observe(c);
    }
    pub fn merge(&mut self, o: Report) {
        self.runs += o.runs;
        self.evaluations += o.evaluations;
        self.sigs.extend(o.sigs);
        self.trivial += o.trivial;
        for (k, v) in o.faults {
            *self.faults.entry(k).or_insert(0) += v;
        }
        for (k, v) in o.probes {
            *self.probes.entry(k).or_insert(0) += v;
        }
        for (k, v) in o.skipped {
            *self.skipped.entry(k).or_insert(0) += v;
        }
        for v in o.violations {
            let n = self.violation_counts.entry(format!("{}\u{1}{}", v.oracle, v.key)).or_insert(0);
            *n += 1;
            if *n <= KEEP_PER_CLASS {
                self.violations.push(v);
            }
        }
        for s in o.samples {
            self.sample(s);
        }
        self.sched_traces.extend(o.sched_traces);
        self.scheduler_steps += o.scheduler_steps;
        self.entropy_bytes += o.entropy_bytes;
        self.observe(o.event_digest);
    }
}

/// Run `f`, turning a panic into `Err(message)`. The default panic hook is silenced by `main`.
pub fn guarded<T>(f: impl FnOnce() -> T) -> Result<T, String> {
    match catch_unwind(AssertUnwindSafe(f)) {
        Ok(v) => Ok(v),
        Err(e) => Err(if let Some(s) = e.downcast_ref::<&str>() {
            s.to_string()
        } else if let Some(s) = e.downcast_ref::<String>() {
            s.clone()
        } else {
            "panic".to_string()
        }),
    }
}

#[derive(Clone, Copy, Debug, PartialEq, Eq)]
pub enum Tier {
    Quick,
    Thorough,
}

thread_local! { static ARTIFACTS: std::cell::RefCell<Vec<Value>> = std::cell::RefCell::new(Vec::new()); }

/// Output of a node that another node (process / build variant) consumes: the driver is the transport.
pub fn emit_artifact(v: Value) {
    ARTIFACTS.with(|a| a.borrow_mut().push(v));
}
pub fn take_artifacts() -> Vec<Value> {
    ARTIFACTS.with(|a| std::mem::take(&mut *a.borrow_mut()))
}

pub fn hex(b: &[u8]) -> String {
    let mut s = String::with_capacity(b.len() * 2);
    for x in b {
        s.push_str(&format!("{:02x}", x));
    }
    s
}
pub fn unhex(s: &str) -> Vec<u8> {
    (0..s.len() / 2).map(|i| u8::from_str_radix(&s[2 * i..2 * i + 2], 16).unwrap()).collect()
}
