//! Workload: circuit programs (DESIGN §3.1). A program is a list of typed ops; each op knows
//! (a) which `CircuitBuilder` call realises it and (b) its meaning in the reference evaluator
//! (`refmath`, no arithmetic shared with the repository).
use plonky2::field::extension::quadratic::QuadraticExtension;
use plonky2::field::goldilocks_field::GoldilocksField;
use plonky2::field::types::{Field, PrimeField64};
use plonky2::gates::exponentiation::ExponentiationGate;
use plonky2::gates::lookup_table::LookupTable;
use plonky2::gates::random_access::RandomAccessGate;
use plonky2::hash::hash_types::{HashOut, HashOutTarget, MerkleCapTarget};
use plonky2::hash::merkle_proofs::MerkleProofTarget;
use plonky2::hash::poseidon::PoseidonHash;
use plonky2::iop::ext_target::ExtensionTarget;
use plonky2::iop::target::{BoolTarget, Target};
use plonky2::iop::witness::{PartialWitness, WitnessWrite};
use plonky2::plonk::circuit_builder::CircuitBuilder;
use plonky2::plonk::circuit_data::CircuitConfig;
use plonky2::util::reducing::ReducingFactorTarget;
use serde::{Deserialize, Serialize};
use std::sync::Arc;

use crate::core::Rng;
use crate::refmath as rm;

pub type F = GoldilocksField;
pub type FE = QuadraticExtension<GoldilocksField>;
pub const D: usize = 2;

#[derive(Clone, Copy, Debug, PartialEq, Eq, Serialize, Deserialize)]
pub enum Ty {
    F,
    B,
    E,
    H,
}

#[derive(Clone, Debug, PartialEq, Serialize, Deserialize)]
pub enum Val {
    F(u64),
    B(bool),
    E([u64; 2]),
    H([u64; 4]),
}

impl Val {
    pub fn ty(&self) -> Ty {
        match self {
            Val::F(_) => Ty::F,
            Val::B(_) => Ty::B,
            Val::E(_) => Ty::E,
            Val::H(_) => Ty::H,
        }
    }
    pub fn flat(&self) -> Vec<u64> {
        match self {
            Val::F(x) => vec![*x],
            Val::B(b) => vec![*b as u64],
            Val::E(e) => e.to_vec(),
            Val::H(h) => h.to_vec(),
        }
    }
    fn f(&self) -> u64 {
        match self {
            Val::F(x) => *x,
            _ => panic!("type error: expected F"),
        }
    }
    fn b(&self) -> bool {
        match self {
            Val::B(x) => *x,
            _ => panic!("type error: expected B"),
        }
    }
    fn e(&self) -> [u64; 2] {
        match self {
            Val::E(x) => *x,
            _ => panic!("type error: expected E"),
        }
    }
    fn h(&self) -> [u64; 4] {
        match self {
            Val::H(x) => *x,
            _ => panic!("type error: expected H"),
        }
    }
}

/// Operands are indices into the value list (inputs first, then op results in order).
#[derive(Clone, Debug, PartialEq, Serialize, Deserialize)]
pub enum Op {
    Const(u64),
    /// the constant c handed to the builder in its non-canonical representation p + c (c < 2^32 - 1)
    ConstNC(u64),
    Add(usize, usize),
    Sub(usize, usize),
    Mul(usize, usize),
    MulAdd(usize, usize, usize),
    MulSub(usize, usize, usize),
    Arith(u64, u64, usize, usize, usize),
    Neg(usize),
    Square(usize),
    Cube(usize),
    Div(usize, usize),
    Inverse(usize),
    ExpU64(usize, u64),
    ExpPow2(usize, usize),
    AddConst(usize, u64),
    MulConst(u64, usize),
    AddMany(Vec<usize>),
    MulMany(Vec<usize>),
    ExtNew(usize, usize),
    ExtGet(usize, usize),
    AddE(usize, usize),
    SubE(usize, usize),
    MulE(usize, usize),
    MulAddE(usize, usize, usize),
    ArithE(u64, u64, usize, usize, usize),
    ScalarMulE(usize, usize),
    DivE(usize, usize),
    InvE(usize),
    SquareE(usize),
    MulManyE(Vec<usize>),
    InnerProductE(u64, usize, Vec<(usize, usize)>),
    ExpU64E(usize, u64),
    ReduceE(usize, Vec<usize>),
    ReduceBase(usize, Vec<usize>),
    /// -> n bools; requires value < 2^n
    SplitLe(usize, usize),
    LeSum(Vec<usize>),
    /// base in {3,4,8} (gate degree = base <= quotient degree factor); -> limbs F values; requires value < base^limbs
    SplitBase(usize, usize, usize),
    RangeCheck(usize, usize),
    /// (x, num_low_bits, num_bits) -> num_low_bits bools
    LowBits(usize, usize, usize),
    /// (x, n_log, num_bits) -> (low, high)
    SplitLowHigh(usize, usize, usize),
    AssertBool(usize),
    Select(usize, usize, usize),
    SelectE(usize, usize, usize),
    And(usize, usize),
    Or(usize, usize),
    Not(usize),
    IsEqual(usize, usize),
    RandomAccess(usize, Vec<usize>),
    RandomAccessE(usize, Vec<usize>),
    ExpFromBits(usize, Vec<usize>),
    Exp(usize, usize, usize),
    Hash(Vec<usize>),
    /// inputs, number of outputs squeezed (hash_n_to_m_no_pad), index of the output kept
    HashM(Vec<usize>, usize, usize),
    HashGet(usize, usize),
    HashOrNoop(Vec<usize>),
    /// leaf values, index bits (little endian), cap height, seed for the other leaves
    MerkleVerify(Vec<usize>, Vec<usize>, usize, u64),
    Lookup(usize, usize),
    Connect(usize, usize),
    AssertZero(usize),
    AssertOne(usize),
    CondAssertEq(usize, usize, usize),
}

#[derive(Clone, Debug, PartialEq, Serialize, Deserialize)]
pub struct Program {
    pub inputs: Vec<Val>,
    pub ops: Vec<Op>,
    pub tables: Vec<Vec<(u16, u16)>>,
    /// indices of values registered as public outputs (all inputs are registered first)
    pub outputs: Vec<usize>,
}

#[derive(Debug)]
pub enum EvalError {
    Precondition(String),
}

fn pre(c: bool, what: &str) -> Result<(), EvalError> {
    if c {
        Ok(())
    } else {
        Err(EvalError::Precondition(what.to_string()))
    }
}

fn merkle_ref(leaf: &[u64], index: usize, height: usize, cap_height: usize, seed: u64) -> (Vec<[u64; 4]>, Vec<[u64; 4]>) {
    // returns (siblings bottom-up, cap)
    let n = 1usize << height;
    let w = leaf.len();
    let mut r = Rng::new(seed);
    let mut level: Vec<[u64; 4]> = (0..n)
        .map(|i| {
            if i == index {
                rm::hash_or_noop(leaf)
            } else {
                let l: Vec<u64> = (0..w).map(|_| r.felt()).collect();
                rm::hash_or_noop(&l)
            }
        })
        .collect();
    let mut sibs = Vec::new();
    let mut idx = index;
    while level.len() > (1 << cap_height) {
        sibs.push(level[idx ^ 1]);
        level = level.chunks(2).map(|p| rm::two_to_one(p[0], p[1])).collect();
        idx >>= 1;
    }
    (sibs, level)
}

impl Program {
    /// REF-EVAL: all values (inputs then op results), or a violated precondition.
    pub fn eval(&self, inputs: &[Val]) -> Result<Vec<Val>, EvalError> {
        let mut v: Vec<Val> = inputs.to_vec();
        for op in &self.ops {
            self.eval_op(op, &mut v)?;
        }
        Ok(v)
    }

    pub fn eval_op(&self, op: &Op, v: &mut Vec<Val>) -> Result<(), EvalError> {
        use Op::*;
        let bits_of = |x: u64, n: usize| -> Vec<Val> { (0..n).map(|i| Val::B((x >> i) & 1 == 1)).collect() };
        match op {
            Const(c) => v.push(Val::F(*c % rm::P)),
            ConstNC(c) => v.push(Val::F(*c % rm::P)),
            Add(a, b) => v.push(Val::F(rm::add(v[*a].f(), v[*b].f()))),
            Sub(a, b) => v.push(Val::F(rm::sub(v[*a].f(), v[*b].f()))),
            Mul(a, b) => v.push(Val::F(rm::mul(v[*a].f(), v[*b].f()))),
            MulAdd(a, b, c) => v.push(Val::F(rm::add(rm::mul(v[*a].f(), v[*b].f()), v[*c].f()))),
            MulSub(a, b, c) => v.push(Val::F(rm::sub(rm::mul(v[*a].f(), v[*b].f()), v[*c].f()))),
            Arith(c0, c1, a, b, c) => {
                let t = rm::mul(*c0 % rm::P, rm::mul(v[*a].f(), v[*b].f()));
                v.push(Val::F(rm::add(t, rm::mul(*c1 % rm::P, v[*c].f()))))
            }
            Neg(a) => v.push(Val::F(rm::neg(v[*a].f()))),
            Square(a) => v.push(Val::F(rm::mul(v[*a].f(), v[*a].f()))),
            Cube(a) => v.push(Val::F(rm::mul(v[*a].f(), rm::mul(v[*a].f(), v[*a].f())))),
            Div(a, b) => {
                pre(v[*b].f() != 0, "div by zero")?;
                v.push(Val::F(rm::mul(v[*a].f(), rm::inv(v[*b].f()))))
            }
            Inverse(a) => {
                pre(v[*a].f() != 0, "inverse of zero")?;
                v.push(Val::F(rm::inv(v[*a].f())))
            }
            ExpU64(a, e) => v.push(Val::F(rm::pow(v[*a].f(), *e))),
            ExpPow2(a, k) => {
                let mut x = v[*a].f();
                for _ in 0..*k {
                    x = rm::mul(x, x);
                }
                v.push(Val::F(x))
            }
            AddConst(a, c) => v.push(Val::F(rm::add(v[*a].f(), *c % rm::P))),
            MulConst(c, a) => v.push(Val::F(rm::mul(*c % rm::P, v[*a].f()))),
            AddMany(xs) => v.push(Val::F(xs.iter().fold(0, |acc, i| rm::add(acc, v[*i].f())))),
            MulMany(xs) => v.push(Val::F(xs.iter().fold(1, |acc, i| rm::mul(acc, v[*i].f())))),
            ExtNew(a, b) => v.push(Val::E([v[*a].f(), v[*b].f()])),
            ExtGet(e, i) => v.push(Val::F(v[*e].e()[*i])),
            AddE(a, b) => v.push(Val::E(rm::eadd(v[*a].e(), v[*b].e()))),
            SubE(a, b) => v.push(Val::E(rm::esub(v[*a].e(), v[*b].e()))),
            MulE(a, b) => v.push(Val::E(rm::emul(v[*a].e(), v[*b].e()))),
            MulAddE(a, b, c) => v.push(Val::E(rm::eadd(rm::emul(v[*a].e(), v[*b].e()), v[*c].e()))),
            ArithE(c0, c1, a, b, c) => {
                let t = rm::escale(*c0 % rm::P, rm::emul(v[*a].e(), v[*b].e()));
                v.push(Val::E(rm::eadd(t, rm::escale(*c1 % rm::P, v[*c].e()))))
            }
            ScalarMulE(s, e) => v.push(Val::E(rm::escale(v[*s].f(), v[*e].e()))),
            DivE(a, b) => {
                pre(!rm::eis_zero(v[*b].e()), "ext div by zero")?;
                v.push(Val::E(rm::emul(v[*a].e(), rm::einv(v[*b].e()))))
            }
            InvE(a) => {
                pre(!rm::eis_zero(v[*a].e()), "ext inverse of zero")?;
                v.push(Val::E(rm::einv(v[*a].e())))
            }
            SquareE(a) => v.push(Val::E(rm::emul(v[*a].e(), v[*a].e()))),
            MulManyE(xs) => v.push(Val::E(xs.iter().fold([1, 0], |acc, i| rm::emul(acc, v[*i].e())))),
            InnerProductE(c, start, pairs) => {
                let mut acc = v[*start].e();
                for (a, b) in pairs {
                    acc = rm::eadd(rm::escale(*c % rm::P, rm::emul(v[*a].e(), v[*b].e())), acc);
                }
                v.push(Val::E(acc))
            }
            ExpU64E(a, e) => v.push(Val::E(rm::epow(v[*a].e(), *e))),
            ReduceE(alpha, terms) => {
                let al = v[*alpha].e();
                let mut acc = [0, 0];
                for t in terms.iter().rev() {
                    acc = rm::eadd(rm::emul(acc, al), v[*t].e());
                }
                v.push(Val::E(acc))
            }
            ReduceBase(alpha, terms) => {
                let al = v[*alpha].e();
                let mut acc = [0, 0];
                for t in terms.iter().rev() {
                    acc = rm::eadd(rm::emul(acc, al), [v[*t].f(), 0]);
                }
                v.push(Val::E(acc))
            }
            SplitLe(a, n) => {
                let x = v[*a].f();
                pre(*n >= 64 || x >> *n == 0, "split_le: value too wide")?;
                v.extend(bits_of(x, *n));
            }
            LeSum(bits) => {
                let mut acc = 0u64;
                for (i, b) in bits.iter().enumerate() {
                    if v[*b].b() {
                        acc = rm::add(acc, rm::pow(2, i as u64));
                    }
                }
                v.push(Val::F(acc))
            }
            SplitBase(a, base, limbs) => {
                let mut x = v[*a].f() as u128;
                let b = *base as u128;
                let mut out = Vec::new();
                for _ in 0..*limbs {
                    out.push(Val::F((x % b) as u64));
                    x /= b;
                }
                pre(x == 0, "split_le_base: value too wide")?;
                v.extend(out);
            }
            RangeCheck(a, n) => pre(v[*a].f() >> *n == 0, "range_check fails")?,
            LowBits(a, nl, nb) => {
                let x = v[*a].f();
                pre(x >> *nb == 0, "low_bits: value too wide")?;
                v.extend(bits_of(x, *nl));
            }
            SplitLowHigh(a, nlog, nb) => {
                let x = v[*a].f();
                pre(x >> *nb == 0, "split_low_high: value too wide")?;
                v.push(Val::F(x & ((1u64 << *nlog) - 1)));
                v.push(Val::F(x >> *nlog));
            }
            AssertBool(_) => {}
            Select(b, x, y) => v.push(Val::F(if v[*b].b() { v[*x].f() } else { v[*y].f() })),
            SelectE(b, x, y) => v.push(Val::E(if v[*b].b() { v[*x].e() } else { v[*y].e() })),
            And(a, b) => v.push(Val::B(v[*a].b() && v[*b].b())),
            Or(a, b) => v.push(Val::B(v[*a].b() || v[*b].b())),
            Not(a) => v.push(Val::B(!v[*a].b())),
            IsEqual(a, b) => v.push(Val::B(v[*a].f() == v[*b].f())),
            RandomAccess(i, xs) => {
                let idx = v[*i].f();
                pre((idx as usize) < xs.len().next_power_of_two() && idx < 1 << 20, "random_access: index out of range")?;
                let k = (idx as usize).min(xs.len() - 1);
                v.push(Val::F(v[xs[k]].f()))
            }
            RandomAccessE(i, xs) => {
                let idx = v[*i].f();
                pre((idx as usize) < xs.len().next_power_of_two() && idx < 1 << 20, "random_access: index out of range")?;
                let k = (idx as usize).min(xs.len() - 1);
                v.push(Val::E(v[xs[k]].e()))
            }
            ExpFromBits(base, bits) => {
                let mut e = 0u64;
                for (i, b) in bits.iter().enumerate() {
                    if v[*b].b() {
                        e |= 1 << i;
                    }
                }
                v.push(Val::F(rm::pow(v[*base].f(), e)))
            }
            Exp(base, ex, nb) => {
                let e = v[*ex].f();
                pre(e >> *nb == 0, "exp: exponent too wide")?;
                v.push(Val::F(rm::pow(v[*base].f(), e)))
            }
            Hash(xs) => {
                let inp: Vec<u64> = xs.iter().map(|i| v[*i].f()).collect();
                v.push(Val::H(rm::hash_no_pad(&inp)))
            }
            HashM(xs, m, k) => {
                let inp: Vec<u64> = xs.iter().map(|i| v[*i].f()).collect();
                v.push(Val::F(rm::hash_n_to_m(&inp, *m)[*k]))
            }
            HashGet(h, i) => v.push(Val::F(v[*h].h()[*i])),
            HashOrNoop(xs) => {
                let inp: Vec<u64> = xs.iter().map(|i| v[*i].f()).collect();
                v.push(Val::H(rm::hash_or_noop(&inp)))
            }
            MerkleVerify(..) => {}
            Lookup(t, a) => {
                let x = v[*a].f();
                let hit = self.tables[*t].iter().find(|(i, _)| *i as u64 == x);
                pre(hit.is_some(), "lookup: input not in table")?;
                v.push(Val::F(hit.unwrap().1 as u64))
            }
            Connect(a, b) => pre(v[*a].flat() == v[*b].flat(), "connect: values differ")?,
            AssertZero(a) => pre(v[*a].f() == 0, "assert_zero fails")?,
            AssertOne(a) => pre(v[*a].f() == 1, "assert_one fails")?,
            CondAssertEq(c, x, y) => pre(!v[*c].b() || v[*x].f() == v[*y].f(), "conditional_assert_eq fails")?,
        }
        Ok(())
    }

    /// Expected public inputs for given inputs: flattened inputs, then flattened outputs.
    pub fn expected_public(&self, inputs: &[Val]) -> Result<Vec<u64>, EvalError> {
        let vals = self.eval(inputs)?;
        let mut out: Vec<u64> = inputs.iter().flat_map(|x| x.flat()).collect();
        for &o in &self.outputs {
            out.extend(vals[o].flat());
        }
        Ok(out)
    }

    pub fn num_input_elems(&self) -> usize {
        self.inputs.iter().map(|x| x.flat().len()).sum()
    }

    /// Parse the inputs part of a public-input vector back into typed values (bools must be 0/1).
    pub fn inputs_from_public(&self, pi: &[u64]) -> Option<Vec<Val>> {
        let mut k = 0;
        let mut out = Vec::new();
        for i in &self.inputs {
            match i.ty() {
                Ty::F => {
                    out.push(Val::F(pi[k]));
                    k += 1
                }
                Ty::B => {
                    if pi[k] > 1 {
                        return None;
                    }
                    out.push(Val::B(pi[k] == 1));
                    k += 1
                }
                Ty::E => {
                    out.push(Val::E([pi[k], pi[k + 1]]));
                    k += 2
                }
                Ty::H => {
                    out.push(Val::H([pi[k], pi[k + 1], pi[k + 2], pi[k + 3]]));
                    k += 4
                }
            }
        }
        Some(out)
    }
}

#[derive(Clone, Debug)]
pub enum TV {
    F(Target),
    B(BoolTarget),
    E(ExtensionTarget<D>),
    H(HashOutTarget),
}

impl TV {
    fn f(&self) -> Target {
        match self {
            TV::F(t) => *t,
            _ => panic!("type error F"),
        }
    }
    fn b(&self) -> BoolTarget {
        match self {
            TV::B(t) => *t,
            _ => panic!("type error B"),
        }
    }
    fn e(&self) -> ExtensionTarget<D> {
        match self {
            TV::E(t) => *t,
            _ => panic!("type error E"),
        }
    }
    fn h(&self) -> HashOutTarget {
        match self {
            TV::H(t) => *t,
            _ => panic!("type error H"),
        }
    }
    pub fn flat(&self) -> Vec<Target> {
        match self {
            TV::F(t) => vec![*t],
            TV::B(b) => vec![b.target],
            TV::E(e) => e.0.to_vec(),
            TV::H(h) => h.elements.to_vec(),
        }
    }
}

pub fn fe(x: u64) -> F {
    F::from_canonical_u64(x % rm::P)
}

/// The private Merkle material of one `MerkleVerify` op.
pub struct MerkleAux {
    pub proof: MerkleProofTarget,
    pub op_index: usize,
}

pub struct Realised {
    pub input_targets: Vec<TV>,
    pub value_targets: Vec<TV>,
    pub merkle: Vec<MerkleAux>,
}

impl Program {
    /// Realise the program on a builder. `vals` are the reference values of the generating run
    /// (needed only for constants that depend on them: Merkle caps).
    pub fn realise(&self, b: &mut CircuitBuilder<F, D>, vals: &[Val]) -> Realised {
        let luts: Vec<usize> = self
            .tables
            .iter()
            .map(|t| b.add_lookup_table_from_pairs(Arc::new(t.clone()) as LookupTable))
            .collect();
        let mut tv: Vec<TV> = Vec::new();
        for i in &self.inputs {
            tv.push(match i.ty() {
                Ty::F => TV::F(b.add_virtual_target()),
                Ty::B => TV::B(b.add_virtual_bool_target_safe()),
                Ty::E => TV::E(b.add_virtual_extension_target()),
                Ty::H => TV::H(b.add_virtual_hash()),
            });
        }
        let input_targets = tv.clone();
        for t in &input_targets {
            b.register_public_inputs(&t.flat());
        }
        let mut merkle = Vec::new();
        use Op::*;
        for (oi, op) in self.ops.iter().enumerate() {
            match op {
                Const(c) => tv.push(TV::F(b.constant(fe(*c)))),
                ConstNC(c) => tv.push(TV::F(b.constant(F::from_noncanonical_u64(rm::P + (*c % 0xFFFF_FFFE))))),
                Add(x, y) => tv.push(TV::F(b.add(tv[*x].f(), tv[*y].f()))),
                Sub(x, y) => tv.push(TV::F(b.sub(tv[*x].f(), tv[*y].f()))),
                Mul(x, y) => tv.push(TV::F(b.mul(tv[*x].f(), tv[*y].f()))),
                MulAdd(x, y, z) => tv.push(TV::F(b.mul_add(tv[*x].f(), tv[*y].f(), tv[*z].f()))),
                MulSub(x, y, z) => tv.push(TV::F(b.mul_sub(tv[*x].f(), tv[*y].f(), tv[*z].f()))),
                Arith(c0, c1, x, y, z) => tv.push(TV::F(b.arithmetic(fe(*c0), fe(*c1), tv[*x].f(), tv[*y].f(), tv[*z].f()))),
                Neg(x) => tv.push(TV::F(b.neg(tv[*x].f()))),
                Square(x) => tv.push(TV::F(b.square(tv[*x].f()))),
                Cube(x) => tv.push(TV::F(b.cube(tv[*x].f()))),
                Div(x, y) => tv.push(TV::F(b.div(tv[*x].f(), tv[*y].f()))),
                Inverse(x) => tv.push(TV::F(b.inverse(tv[*x].f()))),
                ExpU64(x, e) => tv.push(TV::F(b.exp_u64(tv[*x].f(), *e))),
                ExpPow2(x, k) => tv.push(TV::F(b.exp_power_of_2(tv[*x].f(), *k))),
                AddConst(x, c) => tv.push(TV::F(b.add_const(tv[*x].f(), fe(*c)))),
                MulConst(c, x) => tv.push(TV::F(b.mul_const(fe(*c), tv[*x].f()))),
                AddMany(xs) => {
                    let ts: Vec<Target> = xs.iter().map(|i| tv[*i].f()).collect();
                    tv.push(TV::F(b.add_many(ts)))
                }
                MulMany(xs) => {
                    let ts: Vec<Target> = xs.iter().map(|i| tv[*i].f()).collect();
                    tv.push(TV::F(b.mul_many(ts)))
                }
                ExtNew(x, y) => tv.push(TV::E(ExtensionTarget([tv[*x].f(), tv[*y].f()]))),
                ExtGet(e, i) => tv.push(TV::F(tv[*e].e().0[*i])),
                AddE(x, y) => tv.push(TV::E(b.add_extension(tv[*x].e(), tv[*y].e()))),
                SubE(x, y) => tv.push(TV::E(b.sub_extension(tv[*x].e(), tv[*y].e()))),
                MulE(x, y) => tv.push(TV::E(b.mul_extension(tv[*x].e(), tv[*y].e()))),
                MulAddE(x, y, z) => tv.push(TV::E(b.mul_add_extension(tv[*x].e(), tv[*y].e(), tv[*z].e()))),
                ArithE(c0, c1, x, y, z) => tv.push(TV::E(b.arithmetic_extension(fe(*c0), fe(*c1), tv[*x].e(), tv[*y].e(), tv[*z].e()))),
                ScalarMulE(s, e) => tv.push(TV::E(b.scalar_mul_ext(tv[*s].f(), tv[*e].e()))),
                DivE(x, y) => tv.push(TV::E(b.div_extension(tv[*x].e(), tv[*y].e()))),
                InvE(x) => tv.push(TV::E(b.inverse_extension(tv[*x].e()))),
                SquareE(x) => tv.push(TV::E(b.square_extension(tv[*x].e()))),
                MulManyE(xs) => {
                    let ts: Vec<ExtensionTarget<D>> = xs.iter().map(|i| tv[*i].e()).collect();
                    tv.push(TV::E(b.mul_many_extension(ts)))
                }
                InnerProductE(c, s, pairs) => {
                    let ps: Vec<_> = pairs.iter().map(|(x, y)| (tv[*x].e(), tv[*y].e())).collect();
                    tv.push(TV::E(b.inner_product_extension(fe(*c), tv[*s].e(), ps)))
                }
                ExpU64E(x, e) => tv.push(TV::E(b.exp_u64_extension(tv[*x].e(), *e))),
                ReduceE(alpha, terms) => {
                    let ts: Vec<ExtensionTarget<D>> = terms.iter().map(|i| tv[*i].e()).collect();
                    let mut r = ReducingFactorTarget::new(tv[*alpha].e());
                    tv.push(TV::E(r.reduce(&ts, b)))
                }
                ReduceBase(alpha, terms) => {
                    let ts: Vec<Target> = terms.iter().map(|i| tv[*i].f()).collect();
                    let mut r = ReducingFactorTarget::new(tv[*alpha].e());
                    tv.push(TV::E(r.reduce_base(&ts, b)))
                }
                SplitLe(x, n) => {
                    for bt in b.split_le(tv[*x].f(), *n) {
                        tv.push(TV::B(bt));
                    }
                }
                LeSum(bits) => {
                    let bs: Vec<BoolTarget> = bits.iter().map(|i| tv[*i].b()).collect();
                    tv.push(TV::F(b.le_sum(bs.iter())))
                }
                SplitBase(x, base, limbs) => {
                    let ls = match base {
                        3 => b.split_le_base::<3>(tv[*x].f(), *limbs),
                        4 => b.split_le_base::<4>(tv[*x].f(), *limbs),
                        8 => b.split_le_base::<8>(tv[*x].f(), *limbs),
                        _ => panic!("unsupported base"),
                    };
                    for l in ls {
                        tv.push(TV::F(l));
                    }
                }
                RangeCheck(x, n) => b.range_check(tv[*x].f(), *n),
                LowBits(x, nl, nb) => {
                    for bt in b.low_bits(tv[*x].f(), *nl, *nb) {
                        tv.push(TV::B(bt));
                    }
                }
                SplitLowHigh(x, nlog, nb) => {
                    let (lo, hi) = b.split_low_high(tv[*x].f(), *nlog, *nb);
                    tv.push(TV::F(lo));
                    tv.push(TV::F(hi));
                }
                AssertBool(x) => b.assert_bool(tv[*x].b()),
                Select(c, x, y) => tv.push(TV::F(b.select(tv[*c].b(), tv[*x].f(), tv[*y].f()))),
                SelectE(c, x, y) => tv.push(TV::E(b.select_ext(tv[*c].b(), tv[*x].e(), tv[*y].e()))),
                And(x, y) => tv.push(TV::B(b.and(tv[*x].b(), tv[*y].b()))),
                Or(x, y) => tv.push(TV::B(b.or(tv[*x].b(), tv[*y].b()))),
                Not(x) => tv.push(TV::B(b.not(tv[*x].b()))),
                IsEqual(x, y) => tv.push(TV::B(b.is_equal(tv[*x].f(), tv[*y].f()))),
                RandomAccess(i, xs) => {
                    let ts: Vec<Target> = xs.iter().map(|k| tv[*k].f()).collect();
                    tv.push(TV::F(b.random_access(tv[*i].f(), ts)))
                }
                RandomAccessE(i, xs) => {
                    let ts: Vec<ExtensionTarget<D>> = xs.iter().map(|k| tv[*k].e()).collect();
                    tv.push(TV::E(b.random_access_extension(tv[*i].f(), ts)))
                }
                ExpFromBits(base, bits) => {
                    let bs: Vec<BoolTarget> = bits.iter().map(|i| tv[*i].b()).collect();
                    tv.push(TV::F(b.exp_from_bits(tv[*base].f(), bs.iter())))
                }
                Exp(base, e, nb) => tv.push(TV::F(b.exp(tv[*base].f(), tv[*e].f(), *nb))),
                Hash(xs) => {
                    let ts: Vec<Target> = xs.iter().map(|i| tv[*i].f()).collect();
                    tv.push(TV::H(b.hash_n_to_hash_no_pad::<PoseidonHash>(ts)))
                }
                HashM(xs, m, k) => {
                    let ts: Vec<Target> = xs.iter().map(|i| tv[*i].f()).collect();
                    tv.push(TV::F(b.hash_n_to_m_no_pad::<PoseidonHash>(ts, *m)[*k]))
                }
                HashGet(h, i) => tv.push(TV::F(tv[*h].h().elements[*i])),
                HashOrNoop(xs) => {
                    let ts: Vec<Target> = xs.iter().map(|i| tv[*i].f()).collect();
                    tv.push(TV::H(b.hash_or_noop::<PoseidonHash>(ts)))
                }
                MerkleVerify(leaf, bits, cap_h, seed) => {
                    let leaf_vals: Vec<u64> = leaf.iter().map(|i| vals[*i].f()).collect();
                    let mut index = 0usize;
                    for (k, bi) in bits.iter().enumerate() {
                        if vals[*bi].b() {
                            index |= 1 << k;
                        }
                    }
                    let (sibs, cap) = merkle_ref(&leaf_vals, index, bits.len(), *cap_h, *seed);
                    let cap_t = MerkleCapTarget(
                        cap.iter().map(|h| b.constant_hash(HashOut { elements: h.map(fe) })).collect(),
                    );
                    let proof = MerkleProofTarget { siblings: b.add_virtual_hashes(sibs.len()) };
                    let lt: Vec<Target> = leaf.iter().map(|i| tv[*i].f()).collect();
                    let bt: Vec<BoolTarget> = bits.iter().map(|i| tv[*i].b()).collect();
                    b.verify_merkle_proof_to_cap::<PoseidonHash>(lt, &bt, &cap_t, &proof);
                    merkle.push(MerkleAux { proof, op_index: oi });
                }
                Lookup(t, x) => tv.push(TV::F(b.add_lookup_from_index(tv[*x].f(), luts[*t]))),
                Connect(x, y) => {
                    for (s, d) in tv[*x].flat().into_iter().zip(tv[*y].flat()) {
                        b.connect(s, d);
                    }
                }
                AssertZero(x) => b.assert_zero(tv[*x].f()),
                AssertOne(x) => b.assert_one(tv[*x].f()),
                CondAssertEq(c, x, y) => b.conditional_assert_eq(tv[*c].b().target, tv[*x].f(), tv[*y].f()),
            }
        }
        for &o in &self.outputs {
            b.register_public_inputs(&tv[o].flat());
        }
        Realised { input_targets, value_targets: tv, merkle }
    }

    /// The witness inputs of an honest prover: program inputs + private Merkle siblings.
    pub fn witness(&self, r: &Realised, inputs: &[Val], vals: &[Val]) -> PartialWitness<F> {
        let mut pw = PartialWitness::new();
        for (t, v) in r.input_targets.iter().zip(inputs) {
            match (t, v) {
                (TV::F(t), Val::F(x)) => pw.set_target(*t, fe(*x)).unwrap(),
                (TV::B(t), Val::B(x)) => pw.set_bool_target(*t, *x).unwrap(),
                (TV::E(t), Val::E(x)) => {
                    pw.set_target(t.0[0], fe(x[0])).unwrap();
                    pw.set_target(t.0[1], fe(x[1])).unwrap();
                }
                (TV::H(t), Val::H(x)) => pw.set_hash_target(*t, HashOut { elements: x.map(fe) }).unwrap(),
                _ => panic!("input type mismatch"),
            }
        }
        for m in &r.merkle {
            if let Op::MerkleVerify(leaf, bits, cap_h, seed) = &self.ops[m.op_index] {
                let leaf_vals: Vec<u64> = leaf.iter().map(|i| vals[*i].f()).collect();
                let mut index = 0usize;
                for (k, bi) in bits.iter().enumerate() {
                    if vals[*bi].b() {
                        index |= 1 << k;
                    }
                }
                let (sibs, _) = merkle_ref(&leaf_vals, index, bits.len(), *cap_h, *seed);
                for (t, s) in m.proof.siblings.iter().zip(sibs) {
                    pw.set_hash_target(*t, HashOut { elements: s.map(fe) }).unwrap();
                }
            }
        }
        pw
    }
}

/// Which op families a run may use (swarm style).
#[derive(Clone, Debug, Serialize, Deserialize)]
pub struct Families {
    pub arith: bool,
    pub ext: bool,
    pub bits: bool,
    pub logic: bool,
    pub ra: bool,
    pub exp: bool,
    pub hash: bool,
    pub merkle: bool,
    pub lookup: bool,
    pub asserts: bool,
    pub reduce: bool,
    /// split_le_base with bases 3/4/8 (BaseSumGate<B>, B != 2, is not in DefaultGateSerializer)
    #[serde(default)]
    pub split_base: bool,
}

impl Families {
    pub fn draw(r: &mut Rng) -> Families {
        let mut f = Families {
            arith: r.chance(3, 4),
            ext: r.chance(1, 2),
            bits: r.chance(1, 2),
            logic: r.chance(1, 2),
            ra: r.chance(1, 3),
            exp: r.chance(1, 3),
            hash: r.chance(1, 3),
            merkle: r.chance(1, 6),
            lookup: r.chance(1, 4),
            asserts: r.chance(1, 3),
            reduce: r.chance(1, 4),
            split_base: true,
        };
        if !(f.arith || f.ext || f.bits || f.logic || f.ra || f.exp || f.hash || f.lookup || f.reduce) {
            f.arith = true;
        }
        f
    }
    pub fn all() -> Families {
        Families { arith: true, ext: true, bits: true, logic: true, ra: true, exp: true, hash: true, merkle: true, lookup: true, asserts: true, reduce: true, split_base: true }
    }
}

struct Gen<'a> {
    r: &'a mut Rng,
    prog: Program,
    vals: Vec<Val>,
    cfg: &'a CircuitConfig,
    /// operands that already went through a bit decomposition / range assertion
    checked: Vec<usize>,
}

impl<'a> Gen<'a> {
    fn of(&self, ty: Ty) -> Vec<usize> {
        (0..self.vals.len()).filter(|&i| self.vals[i].ty() == ty).collect()
    }
    fn pick(&mut self, ty: Ty) -> Option<usize> {
        let c = self.of(ty);
        if c.is_empty() {
            None
        } else {
            // bias to recent values so that programs form chains
            let n = c.len();
            let k = if self.r.chance(1, 2) { n - 1 - self.r.usize(n.min(4)) } else { self.r.usize(n) };
            Some(c[k])
        }
    }
    fn pick_small(&mut self, max_bits: usize) -> Option<usize> {
        let c: Vec<usize> = (0..self.vals.len())
            .filter(|&i| matches!(self.vals[i], Val::F(x) if max_bits >= 64 || x >> max_bits == 0))
            .collect();
        if c.is_empty() {
            None
        } else {
            Some(*self.r.pick(&c))
        }
    }
    fn push(&mut self, op: Op) -> bool {
        let before = self.vals.len();
        match self.prog.eval_op(&op, &mut self.vals) {
            Ok(()) => {
                self.prog.ops.push(op);
                true
            }
            Err(_) => {
                self.vals.truncate(before);
                false
            }
        }
    }
    fn f(&mut self) -> usize {
        match self.pick(Ty::F) {
            Some(i) => i,
            None => {
                let c = self.r.felt_biased();
                self.push(Op::Const(c));
                self.vals.len() - 1
            }
        }
    }
    fn e(&mut self) -> usize {
        match self.pick(Ty::E) {
            Some(i) if self.r.chance(3, 4) => i,
            _ => {
                let (a, b) = (self.f(), self.f());
                self.push(Op::ExtNew(a, b));
                self.vals.len() - 1
            }
        }
    }
    fn b(&mut self) -> usize {
        match self.pick(Ty::B) {
            Some(i) if self.r.chance(3, 4) => i,
            _ => {
                let (a, b) = (self.f(), self.f());
                self.push(Op::IsEqual(a, b));
                self.vals.len() - 1
            }
        }
    }
    fn small(&mut self, bits: usize) -> usize {
        // the same operand decomposed again with another width (wide then narrow, narrow then wide)
        if !self.checked.is_empty() && self.r.chance(1, 3) {
            let c = *self.r.pick(&self.checked.clone());
            if matches!(self.vals[c], Val::F(x) if bits >= 64 || x >> bits == 0) {
                return c;
            }
        }
        let i = self.small_inner(bits);
        self.checked.push(i);
        i
    }
    fn small_inner(&mut self, bits: usize) -> usize {
        match self.pick_small(bits) {
            Some(i) if self.r.chance(3, 4) => i,
            _ => {
                let c = if bits >= 63 { self.r.u64() >> 1 } else { self.r.below(1u64 << bits) };
                self.push(Op::Const(c));
                self.vals.len() - 1
            }
        }
    }
    fn fs(&mut self, n: usize) -> Vec<usize> {
        (0..n).map(|_| self.f()).collect()
    }
}

/// Draw a program together with satisfying inputs. Every precondition is checked with the
/// reference evaluator while generating, so the result is satisfiable by construction.
pub fn gen_program(r: &mut Rng, cfg: &CircuitConfig, fam: &Families, max_ops: usize) -> Program {
    let n_in = r.range(1, 5);
    let mut inputs = Vec::new();
    for _ in 0..n_in {
        inputs.push(match r.below(10) {
            0 => Val::B(r.chance(1, 2)),
            1 if fam.ext => Val::E([r.felt_biased(), r.felt_biased()]),
            2 if fam.hash => Val::H([r.felt(), r.felt_biased(), r.felt(), r.felt()]),
            3 => Val::F(r.below(1 << 16)),
            4 => {
                let w = *r.pick(&[1u32, 4, 8, 16]);
                Val::F(r.below(1 << w))
            }
            _ => Val::F(r.felt_biased()),
        });
    }
    let mut tables = Vec::new();
    if fam.lookup {
        let slots = cfg.num_routed_wires / 3; // LookupGate / LookupTableGate slots
        for _ in 0..r.range(1, 3) {
            let size = match r.below(6) {
                0 => 1,
                1 => 2,
                2 => slots.saturating_sub(1).max(1),
                3 => slots,
                4 => slots + 1,
                _ => r.range(1, 2 * slots + 3),
            };
            let mut t: Vec<(u16, u16)> = Vec::new();
            let dup_out = r.chance(1, 3);
            let base_in = r.below(1 << 15) as u16;
            for i in 0..size {
                // distinct inputs (a table is a function), arbitrary 16-bit outputs, duplicates allowed
                let inp = base_in.wrapping_add((i * (1 + r.usize(3))) as u16);
                if t.iter().any(|(a, _)| *a == inp) {
                    continue;
                }
                let out = if dup_out && i > 0 && r.chance(1, 2) { t[r.usize(t.len())].1 } else { r.below(1 << 16) as u16 };
                t.push((inp, out));
            }
            // every third table holds a 16-bit program input among its inputs (lookups of a non-constant value)
            if r.chance(1, 3) {
                let small: Vec<u16> = inputs.iter().filter_map(|v| match v { Val::F(x) if *x < 1 << 16 => Some(*x as u16), _ => None }).collect();
                if let Some(&v) = small.first() {
                    if !t.iter().any(|(a, _)| *a == v) {
                        let k = r.usize(t.len());
                        t[k].0 = v;
                    }
                }
            }
            // arbitrary order of the entries
            if r.chance(1, 2) {
                r.shuffle(&mut t);
            }
            // a table that is a proper prefix / an extension of the previous one (two different tables sharing entries)
            if let Some(prev) = tables.last() {
                let prev: &Vec<(u16, u16)> = prev;
                if prev.len() >= 2 && r.chance(1, 4) {
                    if r.chance(1, 2) {
                        t = prev[..r.range(1, prev.len() - 1)].to_vec();
                    } else {
                        let mut e = prev.clone();
                        for (a, b) in t.iter() {
                            if !e.iter().any(|(x, _)| x == a) && e.len() < prev.len() + slots {
                                e.push((*a, *b));
                            }
                        }
                        if e.len() > prev.len() {
                            t = e;
                        }
                    }
                }
            }
            tables.push(t);
        }
    }
    let mut g = Gen { r, prog: Program { inputs: inputs.clone(), ops: vec![], tables, outputs: vec![] }, vals: inputs, cfg, checked: vec![] };
    let n_ops = g.r.range(3, max_ops.max(3));
    let exp_bits = ExponentiationGate::<F, D>::new_from_config(cfg).num_power_bits;
    let mut used_tables: Vec<bool> = vec![false; g.prog.tables.len()];
    let mut guard = 0;
    while g.prog.ops.len() < n_ops && guard < 10 * n_ops {
        guard += 1;
        let fam_pick = g.r.below(11);
        match fam_pick {
            0 if fam.arith => {
                let k = g.r.below(16);
                let (a, b, c) = (g.f(), g.f(), g.f());
                let (c0, c1) = (g.r.felt_biased(), g.r.felt_biased());
                let op = match k {
                    0 => Op::Add(a, b),
                    1 => Op::Sub(a, b),
                    2 => Op::Mul(a, b),
                    3 => Op::MulAdd(a, b, c),
                    4 => Op::MulSub(a, b, c),
                    5 => Op::Arith(c0, c1, a, b, c),
                    6 => Op::Neg(a),
                    7 => Op::Square(a),
                    8 => Op::Cube(a),
                    9 => Op::Div(a, b),
                    10 => Op::Inverse(a),
                    11 => Op::AddConst(a, c0),
                    12 => Op::MulConst(c0, a),
                    13 => {
                        let n = g.r.range(0, 5);
                        Op::AddMany(g.fs(n))
                    }
                    14 => {
                        let n = g.r.range(0, 5);
                        Op::MulMany(g.fs(n))
                    }
                    _ => {
                        if g.r.chance(1, 2) {
                            // the same constant in both representations
                            let c = g.r.below(1 << 20);
                            g.push(Op::Const(c));
                            Op::ConstNC(c)
                        } else {
                            Op::Const(c0)
                        }
                    }
                };
                g.push(op);
            }
            1 if fam.ext => {
                let k = g.r.below(13);
                let (a, b, c) = (g.e(), g.e(), g.e());
                let (c0, c1) = (g.r.felt_biased(), g.r.felt_biased());
                let op = match k {
                    0 => Op::AddE(a, b),
                    1 => Op::SubE(a, b),
                    2 => Op::MulE(a, b),
                    3 => Op::MulAddE(a, b, c),
                    4 => Op::ArithE(c0, c1, a, b, c),
                    5 => {
                        let s = g.f();
                        Op::ScalarMulE(s, a)
                    }
                    6 => Op::DivE(a, b),
                    7 => Op::InvE(a),
                    8 => Op::SquareE(a),
                    9 => {
                        let n = g.r.range(0, 5);
                        Op::MulManyE((0..n).map(|_| g.e()).collect())
                    }
                    10 => {
                        let n = g.r.range(0, 4);
                        Op::InnerProductE(c0, a, (0..n).map(|_| (g.e(), g.e())).collect())
                    }
                    11 => {
                        let sh = g.r.range(0, 20);
                        Op::ExpU64E(a, g.r.below(1 << sh))
                    }
                    _ => Op::ExtGet(a, g.r.usize(2)),
                };
                g.push(op);
            }
            2 if fam.bits => {
                let k = g.r.below(7);
                match k {
                    0 => {
                        let n = *g.r.pick(&[1usize, 2, 7, 8, 16, 31, 32, 33, 40, 63]);
                        let x = g.small(n);
                        g.push(Op::SplitLe(x, n));
                    }
                    1 => {
                        let bits = g.of(Ty::B);
                        if !bits.is_empty() {
                            let n = g.r.range(0, bits.len().min(12));
                            let sel: Vec<usize> = (0..n).map(|_| *g.r.pick(&bits)).collect();
                            g.push(Op::LeSum(sel));
                        }
                    }
                    2 if fam.split_base => {
                        let base = *g.r.pick(&[3usize, 4, 8]);
                        let limbs = g.r.range(1, if base == 8 { 20 } else { 30 });
                        let bits = ((limbs as f64) * (base as f64).log2()).floor() as usize;
                        let x = g.small(bits.min(62));
                        g.push(Op::SplitBase(x, base, limbs));
                    }
                    2 | 3 => {
                        let n = *g.r.pick(&[1usize, 8, 16, 32, 48, 63]);
                        let x = g.small(n);
                        g.push(Op::RangeCheck(x, n));
                    }
                    4 => {
                        let nb = *g.r.pick(&[8usize, 16, 32, 63]);
                        let nl = g.r.range(0, nb);
                        let x = g.small(nb);
                        g.push(Op::LowBits(x, nl, nb));
                    }
                    5 => {
                        let nb = *g.r.pick(&[8usize, 16, 32, 62]);
                        let nlog = g.r.range(1, nb - 1);
                        let x = g.small(nb);
                        g.push(Op::SplitLowHigh(x, nlog, nb));
                    }
                    _ => {
                        let b = g.b();
                        g.push(Op::AssertBool(b));
                    }
                }
            }
            3 if fam.logic => {
                let k = g.r.below(6);
                let (c, d) = (g.b(), g.b());
                let op = match k {
                    0 => Op::Select(c, g.f(), g.f()),
                    1 if fam.ext => Op::SelectE(c, g.e(), g.e()),
                    2 => Op::And(c, d),
                    3 => Op::Or(c, d),
                    4 => Op::Not(c),
                    _ => {
                        let a = g.f();
                        // equal operands half of the time (the free-inverse branch)
                        let b2 = if g.r.chance(1, 2) { a } else { g.f() };
                        Op::IsEqual(a, b2)
                    }
                };
                g.push(op);
            }
            4 if fam.ra => {
                let max_bits = (1..=6).rev().find(|&bits| RandomAccessGate::<F, D>::new_from_config(g.cfg, bits).num_copies > 0).unwrap_or(0);
                if max_bits >= 1 {
                    let lb = g.r.range(1, max_bits);
                    let len = g.r.range(1, 1 << lb);
                    let idx_val = g.r.usize(len.next_power_of_two().min(len + 1).max(1));
                    let idx_val = idx_val.min(len.next_power_of_two() - 1);
                    g.push(Op::Const(idx_val as u64));
                    let idx = g.vals.len() - 1;
                    if fam.ext && g.r.chance(1, 3) {
                        let xs: Vec<usize> = (0..len).map(|_| g.e()).collect();
                        g.push(Op::RandomAccessE(idx, xs));
                    } else {
                        let xs = g.fs(len);
                        g.push(Op::RandomAccess(idx, xs));
                    }
                }
            }
            5 if fam.exp => {
                let k = g.r.below(4);
                let base = g.f();
                match k {
                    0 => {
                        let e = g.r.u64() >> g.r.range(0, 63);
                        g.push(Op::ExpU64(base, e));
                    }
                    1 => {
                        let k2 = g.r.range(0, 12);
                        g.push(Op::ExpPow2(base, k2));
                    }
                    2 => {
                        let bits = g.of(Ty::B);
                        if !bits.is_empty() {
                            let n = g.r.range(0, bits.len().min(exp_bits).min(20));
                            let sel: Vec<usize> = (0..n).map(|_| *g.r.pick(&bits)).collect();
                            g.push(Op::ExpFromBits(base, sel));
                        }
                    }
                    _ => {
                        let nb = g.r.range(1, exp_bits.min(40));
                        let e = g.small(nb);
                        g.push(Op::Exp(base, e, nb));
                    }
                }
            }
            6 if fam.hash => {
                let k = g.r.below(4);
                match k {
                    3 => {
                        // long outputs: more than one squeeze block
                        let n = *g.r.pick(&[1usize, 3, 8, 9, 12]);
                        let m = *g.r.pick(&[1usize, 4, 8, 9, 12, 16, 17, 20]);
                        let xs = g.fs(n);
                        let kk = if g.r.chance(1, 2) { m - 1 } else { g.r.usize(m) };
                        g.push(Op::HashM(xs, m, kk));
                    }
                    0 => {
                        let n = *g.r.pick(&[0usize, 1, 3, 4, 5, 7, 8, 9, 12, 16, 17]);
                        let xs = g.fs(n);
                        g.push(Op::Hash(xs));
                    }
                    1 => {
                        let n = *g.r.pick(&[1usize, 3, 4, 5, 9]);
                        let xs = g.fs(n);
                        g.push(Op::HashOrNoop(xs));
                    }
                    _ => {
                        if let Some(h) = g.pick(Ty::H) {
                            let i = g.r.usize(4);
                            g.push(Op::HashGet(h, i));
                        }
                    }
                }
            }
            7 if fam.merkle => {
                let bits = g.of(Ty::B);
                if !bits.is_empty() {
                    let height = g.r.range(1, 5);
                    let sel: Vec<usize> = (0..height).map(|_| *g.r.pick(&bits)).collect();
                    let cap_h = g.r.range(0, height);
                    let w = *g.r.pick(&[1usize, 3, 4, 5, 8]);
                    let leaf = g.fs(w);
                    let seed = g.r.u64();
                    g.push(Op::MerkleVerify(leaf, sel, cap_h, seed));
                }
            }
            8 if fam.lookup && !g.prog.tables.is_empty() => {
                let t = g.r.usize(g.prog.tables.len());
                let reps = match g.r.below(5) {
                    0 => g.cfg.num_routed_wires / 2, // fills a whole LookupGate row
                    1 => g.cfg.num_routed_wires / 2 + 1,
                    _ => g.r.range(1, 4),
                };
                // a program input that is an input of this table is looked up directly (no constant)
                let n_in = g.prog.inputs.len();
                let via_input: Vec<usize> = (0..n_in).filter(|i| matches!(g.vals[*i], Val::F(x) if g.prog.tables[t].iter().any(|(a, _)| *a as u64 == x))).collect();
                if !via_input.is_empty() && g.r.chance(2, 3) {
                    let x = *g.r.pick(&via_input);
                    if g.push(Op::Lookup(t, x)) {
                        used_tables[t] = true;
                    }
                }
                for _ in 0..reps {
                    let entry = *g.r.pick(&g.prog.tables[t].clone());
                    g.push(Op::Const(entry.0 as u64));
                    let x = g.vals.len() - 1;
                    g.push(Op::Lookup(t, x));
                    used_tables[t] = true;
                }
            }
            9 if fam.asserts => {
                let k = g.r.below(4);
                match k {
                    0 => {
                        // connect two computations of the same value
                        let (a, b) = (g.f(), g.f());
                        g.push(Op::Add(a, b));
                        let x = g.vals.len() - 1;
                        g.push(Op::Add(b, a));
                        let y = g.vals.len() - 1;
                        g.push(Op::Connect(x, y));
                    }
                    1 => {
                        let a = g.f();
                        g.push(Op::Sub(a, a));
                        let z = g.vals.len() - 1;
                        g.push(Op::AssertZero(z));
                    }
                    2 => {
                        let a = g.f();
                        if g.vals[a] != Val::F(0) {
                            g.push(Op::Div(a, a));
                            let o = g.vals.len() - 1;
                            g.push(Op::AssertOne(o));
                        }
                    }
                    _ => {
                        let c = g.b();
                        let a = g.f();
                        let cv = matches!(g.vals[c], Val::B(true));
                        let b2 = if cv { a } else { g.f() };
                        g.push(Op::CondAssertEq(c, a, b2));
                    }
                }
            }
            10 if fam.reduce && fam.ext => {
                let alpha = g.e();
                let n = *g.r.pick(&[0usize, 1, 2, 5, 17, 33, 40]);
                if g.r.chance(1, 2) {
                    let ts: Vec<usize> = (0..n).map(|_| g.e()).collect();
                    g.push(Op::ReduceE(alpha, ts));
                } else {
                    let ts = g.fs(n);
                    g.push(Op::ReduceBase(alpha, ts));
                }
            }
            _ => {}
        }
    }
    // every declared table must be used at least once (the builder asserts it)
    for t in 0..g.prog.tables.len() {
        if !used_tables[t] {
            let entry = g.prog.tables[t][0];
            g.push(Op::Const(entry.0 as u64));
            let x = g.vals.len() - 1;
            g.push(Op::Lookup(t, x));
        }
    }
    // a trailing zero output every fourth program (zero-padding / truncation edge of the public-input hash)
    if g.r.chance(1, 4) {
        let a = g.f();
        g.push(Op::Sub(a, a));
        if g.r.chance(1, 2) {
            g.push(Op::Const(0));
        }
    }
    // outputs: the last value and a random subset of the others
    let n = g.vals.len();
    let n_in = g.prog.inputs.len();
    let mut outs: Vec<usize> = Vec::new();
    let all = g.r.chance(1, 2);
    for i in n_in..n {
        if all || g.r.chance(1, 3) || i == n - 1 {
            outs.push(i);
        }
    }
    g.prog.outputs = outs;
    g.prog
}

pub fn felts(xs: &[u64]) -> Vec<F> {
    xs.iter().map(|&x| fe(x)).collect()
}

pub fn canon(xs: &[F]) -> Vec<u64> {
    xs.iter().map(|x| x.to_canonical_u64()).collect()
}
