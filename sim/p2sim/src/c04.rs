//! C04 — Fiat–Shamir challenges depend on the whole statement and on every prior prover message.
//! The proof is read as the history of an interactive protocol (ROUND-MODEL); the fault is a
//! message alteration at a chosen round; the oracle is a causality check: every challenge that
//! the round model places after the altered component must change.
use plonky2::plonk::circuit_data::CommonCircuitData;
use plonky2::plonk::config::{GenericConfig, GenericHashOut, Hasher};
use plonky2::plonk::proof::{ProofChallenges, ProofWithPublicInputs};
use plonky2::fri::reduction_strategies::FriReductionStrategy;
use plonky2::field::extension::FieldExtension;
use plonky2::field::types::PrimeField64;
use serde::{Deserialize, Serialize};
use serde_json::{json, Value};

use crate::c01::prog_shape;
use crate::core::*;
use crate::mutate::*;
use crate::pipeline::*;
use crate::pipeline::{KC, PC};
use crate::prog::*;
use crate::with_config;

#[derive(Clone, Debug, Serialize, Deserialize)]
pub struct Case {
    /// STARK mode: the transcript of a STARK proof (instance + config) instead of a PLONK proof
    #[serde(default)]
    pub stark: Option<(crate::stark::Instance, crate::c09::SCfg)>,
    pub st: Statement,
    pub sched: Sched,
    pub entropy: Entropy,
    /// replay: only this alteration ("elem:<fault json>" or "stmt:<name>")
    #[serde(default)]
    pub only: Option<Value>,
}

pub fn gen(rng: &mut Rng, _tier: Tier) -> Value {
    let st = draw_statement(rng, 20, false, false);
    let mut rk = rng.sub("stark");
    let stark = if rk.chance(1, 3) {
        let log_n = rk.range(2, 7);
        let inst = if rk.chance(1, 2) { crate::c10::gen_lookup_instance(&mut rk, log_n) } else { crate::stark::gen_instance(&mut rk, log_n, 3, true) };
        let cfg = crate::c09::SCfg::draw(&mut rk, log_n, inst.def.degree, false);
        Some((inst, cfg))
    } else {
        None
    };
    let mut rs = rng.sub("schedule");
    let mut re = rng.sub("entropy");
    serde_json::to_value(Case { stark, st, sched: Sched::draw(&mut rs), entropy: Entropy::draw(&mut re), only: None }).unwrap()
}

/// Challenges as ordered groups: (name, words, whole) — `whole`: the group is one challenge (an
/// extension element or the index vector) and must differ as a whole; otherwise every word is a
/// challenge of its own and each must differ.
pub type Groups = Vec<(String, Vec<u64>, bool)>;

fn groups<const DD: usize>(c: &ProofChallenges<F, DD>) -> Groups
where
    F: plonky2::field::extension::Extendable<DD>,
{
    let fv = |v: &Vec<F>| v.iter().map(|x| x.to_canonical_u64()).collect::<Vec<_>>();
    let ev = |e: &<F as plonky2::field::extension::Extendable<DD>>::Extension| e.to_basefield_array().iter().map(|x| x.to_canonical_u64()).collect::<Vec<_>>();
    let mut g: Groups = vec![
        ("plonk_betas".into(), fv(&c.plonk_betas), false),
        ("plonk_gammas".into(), fv(&c.plonk_gammas), false),
        ("plonk_deltas".into(), fv(&c.plonk_deltas), false),
        ("plonk_alphas".into(), fv(&c.plonk_alphas), false),
        ("plonk_zeta".into(), ev(&c.plonk_zeta), true),
        ("fri_alpha".into(), ev(&c.fri_challenges.fri_alpha), true),
    ];
    for (i, b) in c.fri_challenges.fri_betas.iter().enumerate() {
        g.push((format!("fri_beta[{i}]"), ev(b), true));
    }
    g.push(("fri_pow_response".into(), vec![c.fri_challenges.fri_pow_response.to_canonical_u64()], false));
    g.push(("fri_query_indices".into(), c.fri_challenges.fri_query_indices.iter().map(|&x| x as u64).collect(), true));
    g
}

/// Index of the first challenge group drawn after the component at `path` (ROUND-MODEL, PLONK).
fn first_group_after(path: &Path, n_commit_caps: usize) -> Option<usize> {
    let c = path_str(path);
    // groups: 0 betas 1 gammas 2 deltas 3 alphas 4 zeta 5 fri_alpha 6.. fri_beta[i] 6+n pow 7+n indices
    if c.starts_with("public_inputs") || c.starts_with("proof/wires_cap") {
        Some(0)
    } else if c.starts_with("proof/plonk_zs_partial_products_cap") {
        Some(3)
    } else if c.starts_with("proof/quotient_polys_cap") {
        Some(4)
    } else if c.starts_with("proof/openings") {
        Some(5)
    } else if c.starts_with("proof/opening_proof/commit_phase_merkle_caps") {
        match path.get(3) {
            Some(Seg::I(i)) => Some(6 + *i),
            _ => None,
        }
    } else if c.starts_with("proof/opening_proof/final_poly") || c.starts_with("proof/opening_proof/pow_witness") {
        Some(6 + n_commit_caps)
    } else {
        None // query rounds: not part of the transcript
    }
}

/// Compare challenge groups from `from` on; returns the names of challenges that did NOT change.
fn unchanged(base: &Groups, new: &Groups, from: usize, check_indices: bool) -> Vec<String> {
    let mut out = Vec::new();
    for k in from..base.len() {
        let (name, b, whole) = &base[k];
        // the index vector coincides by chance with probability N^-q: only demanded when that is <= 2^-64
        if name == "fri_query_indices" && !check_indices {
            continue;
        }
        match new.get(k) {
            None => {} // group disappeared: changed
            Some((_, n, _)) => {
                if *whole {
                    if !b.is_empty() && b == n {
                        out.push(name.clone());
                    }
                } else if b.len() == n.len() {
                    for i in 0..b.len() {
                        if b[i] == n[i] {
                            out.push(format!("{name}[{i}]"));
                        }
                    }
                }
            }
        }
    }
    out
}

fn viol(rep: &mut Report, case: &Case, only: Value, comp: &str, detail: String) {
    let mut c = case.clone();
    c.only = Some(only);
    rep.violation("C04", "challenge_independent_of_prior_message", &format!("C04|plonk|{comp}"), detail, serde_json::to_value(&c).unwrap());
}

fn challenges<C: GenericConfig<D, F = F>>(
    p: &ProofWithPublicInputs<F, C, D>,
    digest: &<C::Hasher as Hasher<F>>::Hash,
    common: &CommonCircuitData<F, D>,
) -> Option<Groups> {
    match guarded(|| p.get_challenges(p.get_public_inputs_hash(), digest, common)) {
        Ok(Ok(c)) => Some(groups::<D>(&c)),
        _ => None,
    }
}

/// Statement alterations: (name, altered common data, altered digest).
fn statement_alterations<C: GenericConfig<D, F = F>>(
    common: &CommonCircuitData<F, D>,
    digest: &<C::Hasher as Hasher<F>>::Hash,
) -> Vec<(String, CommonCircuitData<F, D>, <C::Hasher as Hasher<F>>::Hash)> {
    let mut out = Vec::new();
    let mut both = |name: &str, f: &dyn Fn(&mut plonky2::fri::FriConfig)| {
        let mut c = common.clone();
        f(&mut c.config.fri_config);
        f(&mut c.fri_params.config);
        out.push((name.to_string(), c, *digest));
    };
    both("fri.rate_bits+1", &|f| f.rate_bits += 1);
    both("fri.cap_height+1", &|f| f.cap_height += 1);
    both("fri.proof_of_work_bits+1", &|f| f.proof_of_work_bits += 1);
    both("fri.num_query_rounds+1", &|f| f.num_query_rounds += 1);
    both("fri.reduction_strategy.param", &|f| {
        f.reduction_strategy = match &f.reduction_strategy {
            FriReductionStrategy::Fixed(v) => {
                let mut v = v.clone();
                v.push(1);
                FriReductionStrategy::Fixed(v)
            }
            FriReductionStrategy::ConstantArityBits(a, b) => FriReductionStrategy::ConstantArityBits(*a, *b + 1),
            FriReductionStrategy::MinSize(None) => FriReductionStrategy::MinSize(Some(3)),
            FriReductionStrategy::MinSize(Some(k)) => FriReductionStrategy::MinSize(Some(*k + 1)),
        }
    });
    let arities = common.fri_params.reduction_arity_bits.clone();
    both("fri.reduction_strategy.kind", &|f| {
        f.reduction_strategy = match &f.reduction_strategy {
            FriReductionStrategy::Fixed(_) => FriReductionStrategy::MinSize(None),
            _ => FriReductionStrategy::Fixed(arities.clone()),
        }
    });
    let mut c = common.clone();
    c.fri_params.hiding = !c.fri_params.hiding;
    out.push(("fri_params.hiding".into(), c, *digest));
    let mut c = common.clone();
    c.fri_params.degree_bits += 1;
    out.push(("fri_params.degree_bits+1".into(), c, *digest));
    let mut c = common.clone();
    if c.fri_params.reduction_arity_bits.is_empty() {
        c.fri_params.reduction_arity_bits.push(1);
    } else {
        *c.fri_params.reduction_arity_bits.last_mut().unwrap() += 1;
    }
    out.push(("fri_params.reduction_arity_bits".into(), c, *digest));
    let mut c = common.clone();
    c.fri_params.reduction_arity_bits.push(1);
    out.push(("fri_params.reduction_arity_bits.push".into(), c, *digest));
    // circuit digest: every byte of its encoding
    let db = digest.to_bytes();
    for i in 0..db.len() {
        let mut b = db.clone();
        b[i] ^= 1;
        // keep field-element encodings canonical (flip of the low bit of a word can reach p only for p-1.. ignore: from_bytes reduces)
        if let Ok(h) = guarded(|| <C::Hasher as Hasher<F>>::Hash::from_bytes(&b)) {
            if h != *digest {
                out.push((format!("circuit_digest.byte[{i}]"), common.clone(), h));
            }
        }
    }
    out
}

fn exec_c<C: GenericConfig<D, F = F>>(case: &Case, rep: &mut Report) {
    let (built, proof) = match honest_accepted::<C>(&case.st, &case.sched, &case.entropy, rep) {
        Some(x) => x,
        None => return,
    };
    let common = &built.data.common;
    let digest = built.data.verifier_only.circuit_digest;
    let base = match challenges::<C>(&proof, &digest, common) {
        Some(g) => g,
        None => {
            rep.skip("get_challenges failed on honest proof");
            return;
        }
    };
    let base_sig = prog_shape(&case.st.prog) ^ hash_str(&built.cfg.class()) ^ hash_value(&json!(case.st.prog.inputs));
    let ncaps = proof.proof.opening_proof.commit_phase_merkle_caps.len();
    let tree = serde_json::to_value(&proof).unwrap();
    let sh = shape(&tree);
    let only_elem: Option<Fault> = case.only.as_ref().and_then(|v| v.get("elem")).and_then(|f| serde_json::from_value(f.clone()).ok());
    let only_stmt: Option<String> = case.only.as_ref().and_then(|v| v.get("stmt")).and_then(|s| s.as_str().map(|s| s.to_string()));
    let mut n_elems = 0u64;
    let check_indices = built.cfg.num_query_rounds * built.lde_bits() >= 64;
    if check_indices {
        rep.probe("c04.index_vector_checked");
    }

    // ---- every absorbed element of the proof and every public input
    if only_stmt.is_none() {
        for path in &sh.leaves {
            let from = match first_group_after(path, ncaps) {
                Some(g) => g,
                None => continue,
            };
            if let Some(f) = &only_elem {
                if f.path() != path {
                    continue;
                }
            }
            let f = Fault::Elem { path: path.clone(), kind: "plus1".into(), seed: 0 };
            let mut t = tree.clone();
            if !apply(&mut t, &f) {
                continue;
            }
            let p2: ProofWithPublicInputs<F, C, D> = match serde_json::from_value(t) {
                Ok(p) => p,
                Err(_) => continue,
            };
            let sig = base_sig ^ hash_str(&path_str(path));
            let new = match challenges::<C>(&p2, &digest, common) {
                Some(g) => g,
                None => {
                    rep.case(sig, false);
                    continue;
                }
            };
            n_elems += 1;
            rep.fault(&format!("alter.{}", component(path).split('/').take(3).collect::<Vec<_>>().join("/")));
            rep.case(sig, true);
            let same = unchanged(&base, &new, from, check_indices);
            if !same.is_empty() {
                viol(rep, case, json!({"elem": f}), &component(path), format!("altering {} leaves {:?} unchanged", path_str(path), same));
            }
        }
    }
    // ---- every statement field
    if only_elem.is_none() {
        for (name, c2, d2) in statement_alterations::<C>(common, &digest) {
            if let Some(s) = &only_stmt {
                if *s != name {
                    continue;
                }
            }
            let sig = base_sig ^ hash_str(&name);
            let new = match challenges::<C>(&proof, &d2, &c2) {
                Some(g) => g,
                None => {
                    rep.case(sig, false);
                    continue;
                }
            };
            rep.fault(&format!("alter.statement.{}", name.split('[').next().unwrap()));
            rep.case(sig, true);
            let same = unchanged(&base, &new, 0, check_indices);
            if !same.is_empty() {
                viol(rep, case, json!({"stmt": name}), &format!("statement/{}", name.split('[').next().unwrap()), format!("altering {name} leaves {:?} unchanged", same));
            }
        }
    }
    if built.cfg.hash == "keccak" {
        rep.probe("c04.keccak_transcript");
    }
    if !case.st.prog.tables.is_empty() {
        rep.probe("c04.with_lookup_deltas");
    }
    rep.probe_n("c04.commit_phase_caps", ncaps as u64);
    rep.sample(json!({"config": built.cfg.class(), "absorbed_elements_altered": n_elems, "challenge_groups": base.iter().map(|g| g.0.clone()).collect::<Vec<_>>()}));
}

pub fn exec(case: &Value, rep: &mut Report) {
    let case: Case = serde_json::from_value(case.clone()).expect("malformed C04 case");
    if let Some((inst, _)) = &case.stark {
        return crate::with_stark!(inst.def, exec_stark_h, &case, rep);
    }
    with_config!(case.st.cfg.hash, exec_c, &case, rep)
}

// ------------------------------------------------------------------ STARK transcripts

fn stark_groups(c: &starky::proof::StarkProofChallenges<F, D>) -> Groups {
    let ev = |e: &FE| <FE as FieldExtension<D>>::to_basefield_array(e).iter().map(|x: &F| x.to_canonical_u64()).collect::<Vec<_>>();
    let mut g: Groups = Vec::new();
    let lk: Vec<u64> = c.lookup_challenge_set.as_ref().map(|s| s.challenges.iter().flat_map(|ch| [ch.beta.to_canonical_u64(), ch.gamma.to_canonical_u64()]).collect()).unwrap_or_default();
    g.push(("lookup_challenges".into(), lk, false));
    g.push(("stark_alphas".into(), c.stark_alphas.iter().map(|x| x.to_canonical_u64()).collect(), false));
    g.push(("stark_zeta".into(), ev(&c.stark_zeta), true));
    g.push(("fri_alpha".into(), ev(&c.fri_challenges.fri_alpha), true));
    for (i, b) in c.fri_challenges.fri_betas.iter().enumerate() {
        g.push((format!("fri_beta[{i}]"), ev(b), true));
    }
    g.push(("fri_pow_response".into(), vec![c.fri_challenges.fri_pow_response.to_canonical_u64()], false));
    g.push(("fri_query_indices".into(), c.fri_challenges.fri_query_indices.iter().map(|&x| x as u64).collect(), true));
    g
}

/// ROUND-MODEL, STARK: public inputs, config -> trace cap -> lookup challenges -> auxiliary cap ->
/// (alpha', simulating zetas, zeta', bound constraint evaluations) -> alphas -> quotient cap -> zeta ->
/// openings -> FRI.
fn stark_first_group_after(path: &Path) -> Option<usize> {
    let c = path_str(path);
    if c.starts_with("public_inputs") || c.starts_with("proof/trace_cap") {
        Some(0)
    } else if c.starts_with("proof/auxiliary_polys_cap") {
        Some(1)
    } else if c.starts_with("proof/quotient_polys_cap") {
        Some(2)
    } else if c.starts_with("proof/openings") {
        Some(3)
    } else if c.starts_with("proof/opening_proof/commit_phase_merkle_caps") {
        match path.get(3) {
            Some(Seg::I(i)) => Some(4 + *i),
            _ => None,
        }
    } else if c.starts_with("proof/opening_proof/final_poly") || c.starts_with("proof/opening_proof/pow_witness") {
        Some(usize::MAX) // resolved by the caller: the pow group
    } else {
        None
    }
}

fn exec_stark_h<const COLS: usize, const PIS: usize>(case: &Case, rep: &mut Report) {
    let (_, cfg) = case.stark.as_ref().unwrap();
    if cfg.hash == "keccak" {
        exec_stark::<KC, COLS, PIS>(case, rep)
    } else {
        exec_stark::<PC, COLS, PIS>(case, rep)
    }
}

fn exec_stark<C: GenericConfig<D, F = F>, const COLS: usize, const PIS: usize>(case: &Case, rep: &mut Report) {
    use crate::c09::*;
    use crate::stark::*;
    use plonky2::iop::challenger::Challenger;
    use starky::proof::StarkProofWithPublicInputs;
    let (inst, scfg) = case.stark.as_ref().unwrap();
    let scfg = match scfg.admissible(inst.log_n) {
        Some(c) => c,
        None => {
            rep.skip("no admissible FRI parameters");
            return;
        }
    };
    let cfg = scfg.to_config();
    case.sched.arm();
    let proof = match stark_prove::<C, COLS, PIS>(&inst.def, &cfg, &inst.rows, &inst.pis) {
        Ok(p) => p,
        Err(_) => {
            rep.skip("base:stark prove failed (reported by C09/C10)");
            return;
        }
    };
    rep.absorb_seams();
    let stark = SimStark::<COLS, PIS>::new(inst.def.clone());
    let chal = |p: &StarkProofWithPublicInputs<F, C, D>, cfg: &starky::config::StarkConfig| -> Option<Groups> {
        guarded(|| p.get_challenges(&stark, &mut Challenger::<F, C::Hasher>::new(), None, None, false, cfg, None)).ok().map(|c| stark_groups(&c))
    };
    let base = match chal(&proof, &cfg) {
        Some(g) => g,
        None => {
            rep.skip("get_challenges failed on honest STARK proof");
            return;
        }
    };
    let ncaps = proof.proof.opening_proof.commit_phase_merkle_caps.len();
    let check_indices = scfg.num_queries * (inst.log_n + scfg.rate_bits) >= 64;
    let base_sig = hash_value(&json!([inst.def, inst.log_n, inst.pis])) ^ hash_str(&scfg.class());
    rep.probe("c04.stark_transcript");
    if proof.proof.auxiliary_polys_cap.is_some() {
        rep.probe("c04.stark_with_auxiliary_polys");
    }
    if proof.proof.quotient_polys_cap.is_none() {
        rep.probe("c04.stark_without_quotient");
    }
    let tree = serde_json::to_value(&proof).unwrap();
    let sh = shape(&tree);
    let only_elem: Option<Fault> = case.only.as_ref().and_then(|v| v.get("elem")).and_then(|f| serde_json::from_value(f.clone()).ok());
    let only_stmt: Option<String> = case.only.as_ref().and_then(|v| v.get("stmt")).and_then(|s| s.as_str().map(|s| s.to_string()));
    let sviol = |rep: &mut Report, only: Value, comp: &str, detail: String| {
        let mut c = case.clone();
        c.only = Some(only);
        rep.violation("C04", "challenge_independent_of_prior_message", &format!("C04|stark|{comp}"), detail, serde_json::to_value(&c).unwrap());
    };
    if only_stmt.is_none() {
        for path in &sh.leaves {
            let from = match stark_first_group_after(path) {
                Some(usize::MAX) => 4 + ncaps,
                Some(g) => g,
                None => continue,
            };
            if let Some(f) = &only_elem {
                if f.path() != path {
                    continue;
                }
            }
            let f = Fault::Elem { path: path.clone(), kind: "plus1".into(), seed: 0 };
            let mut t = tree.clone();
            if !apply(&mut t, &f) || canonical(&t) == canonical(&tree) {
                continue;
            }
            let p2: StarkProofWithPublicInputs<F, C, D> = match serde_json::from_value(t) {
                Ok(p) => p,
                Err(_) => continue,
            };
            let sig = base_sig ^ hash_str(&path_str(path));
            let new = match chal(&p2, &cfg) {
                Some(g) => g,
                None => {
                    rep.case(sig, false);
                    continue;
                }
            };
            rep.fault(&format!("alter.stark.{}", component(path).split('/').take(3).collect::<Vec<_>>().join("/")));
            rep.case(sig, true);
            let same = unchanged(&base, &new, from, check_indices);
            if !same.is_empty() {
                sviol(rep, json!({"elem": f}), &component(path), format!("altering {} leaves {:?} unchanged", path_str(path), same));
            }
        }
    }
    if only_elem.is_none() {
        let mut alts: Vec<(String, SCfg)> = Vec::new();
        let mut a = |name: &str, f: &dyn Fn(&mut SCfg)| {
            let mut c = scfg.clone();
            f(&mut c);
            alts.push((name.to_string(), c));
        };
        a("config.security_bits+1", &|c| c.security_bits += 1);
        a("fri.rate_bits+1", &|c| c.rate_bits += 1);
        a("fri.cap_height+1", &|c| c.cap_height += 1);
        a("fri.proof_of_work_bits+1", &|c| c.pow_bits += 1);
        a("fri.num_query_rounds+1", &|c| c.num_queries += 1);
        a("fri.reduction_strategy.param", &|c| {
            c.strategy = match &c.strategy {
                Strat::Fixed(v) => {
                    let mut v = v.clone();
                    v.push(1);
                    Strat::Fixed(v)
                }
                Strat::ConstantArityBits(a, b) => Strat::ConstantArityBits(*a, *b + 1),
                Strat::MinSize(None) => Strat::MinSize(Some(3)),
                Strat::MinSize(Some(k)) => Strat::MinSize(Some(*k + 1)),
            }
        });
        let arities = cfg.fri_params(inst.log_n).reduction_arity_bits;
        a("fri.reduction_strategy.kind", &|c| {
            c.strategy = match &c.strategy {
                Strat::Fixed(_) => Strat::MinSize(None),
                _ => Strat::Fixed(arities.clone()),
            }
        });
        for (name, c2) in alts {
            if let Some(s) = &only_stmt {
                if *s != name {
                    continue;
                }
            }
            let sig = base_sig ^ hash_str(&name);
            let new = match chal(&proof, &c2.to_config()) {
                Some(g) => g,
                None => {
                    rep.case(sig, false);
                    continue;
                }
            };
            rep.fault(&format!("alter.stark.statement.{name}"));
            rep.case(sig, true);
            let same = unchanged(&base, &new, 0, check_indices);
            if !same.is_empty() {
                sviol(rep, json!({"stmt": name}), &format!("statement/{name}"), format!("altering {name} leaves {:?} unchanged", same));
            }
        }
    }
    rep.sample(json!({"stark": [COLS, PIS], "rows": inst.rows.len(), "config": scfg.class(), "challenge_groups": base.iter().map(|g| g.0.clone()).collect::<Vec<_>>()}));
}

pub fn shrink(case: &Value) -> Vec<Value> {
    let c: Case = serde_json::from_value(case.clone()).unwrap();
    let mut out = Vec::new();
    if c.sched.workers > 1 {
        let mut d = c.clone();
        d.sched = Sched::sequential();
        out.push(d);
    }
    for st in shrink_statement(&c.st) {
        let mut d = c.clone();
        d.st = st;
        out.push(d);
    }
    out.into_iter().map(|d| serde_json::to_value(d).unwrap()).collect()
}
