//! Counting global allocator: records the largest single allocation request since the last reset,
//! so that "attempted an unbounded allocation" is observable without taking the machine down
//! (the driver additionally caps the worker's address space).
use std::alloc::{GlobalAlloc, Layout, System};
use std::sync::atomic::{AtomicUsize, Ordering};

pub struct Watch;
static MAX_REQ: AtomicUsize = AtomicUsize::new(0);

unsafe impl GlobalAlloc for Watch {
    unsafe fn alloc(&self, l: Layout) -> *mut u8 {
        if l.size() > (1 << 20) {
            MAX_REQ.fetch_max(l.size(), Ordering::Relaxed);
        }
        System.alloc(l)
    }
    unsafe fn dealloc(&self, p: *mut u8, l: Layout) {
        System.dealloc(p, l)
    }
    unsafe fn alloc_zeroed(&self, l: Layout) -> *mut u8 {
        if l.size() > (1 << 20) {
            MAX_REQ.fetch_max(l.size(), Ordering::Relaxed);
        }
        System.alloc_zeroed(l)
    }
    unsafe fn realloc(&self, p: *mut u8, l: Layout, n: usize) -> *mut u8 {
        if n > (1 << 20) {
            MAX_REQ.fetch_max(n, Ordering::Relaxed);
        }
        System.realloc(p, l, n)
    }
}

pub fn reset() {
    MAX_REQ.store(0, Ordering::Relaxed);
}
pub fn max_request() -> usize {
    MAX_REQ.load(Ordering::Relaxed)
}
