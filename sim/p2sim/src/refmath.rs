//! Reference arithmetic that shares no code with the repository: Goldilocks by `u128 % p`,
//! the quadratic extension by schoolbook multiplication mod x^2 - 7, Poseidon by the textbook
//! round function (only the constant *tables* are read from the `Poseidon` trait — data, not logic).
use plonky2::field::goldilocks_field::GoldilocksField;
use plonky2::hash::poseidon::{Poseidon, ALL_ROUND_CONSTANTS};

pub const P: u64 = 0xFFFF_FFFF_0000_0001;
pub const W: u64 = 7;

#[inline]
pub fn add(a: u64, b: u64) -> u64 {
    ((a as u128 + b as u128) % P as u128) as u64
}
#[inline]
pub fn sub(a: u64, b: u64) -> u64 {
    ((a as u128 + P as u128 - (b % P) as u128) % P as u128) as u64
}
#[inline]
pub fn mul(a: u64, b: u64) -> u64 {
    ((a as u128 * b as u128) % P as u128) as u64
}
#[inline]
pub fn neg(a: u64) -> u64 {
    sub(0, a)
}
pub fn pow(mut b: u64, mut e: u64) -> u64 {
    let mut r = 1u64;
    while e > 0 {
        if e & 1 == 1 {
            r = mul(r, b);
        }
        b = mul(b, b);
        e >>= 1;
    }
    r
}
pub fn inv(a: u64) -> u64 {
    assert!(a % P != 0);
    pow(a, P - 2)
}

pub type E2 = [u64; 2];
pub fn eadd(a: E2, b: E2) -> E2 {
    [add(a[0], b[0]), add(a[1], b[1])]
}
pub fn esub(a: E2, b: E2) -> E2 {
    [sub(a[0], b[0]), sub(a[1], b[1])]
}
pub fn emul(a: E2, b: E2) -> E2 {
    [add(mul(a[0], b[0]), mul(W, mul(a[1], b[1]))), add(mul(a[0], b[1]), mul(a[1], b[0]))]
}
pub fn escale(s: u64, a: E2) -> E2 {
    [mul(s, a[0]), mul(s, a[1])]
}
pub fn einv(a: E2) -> E2 {
    let norm = sub(mul(a[0], a[0]), mul(W, mul(a[1], a[1])));
    let ni = inv(norm);
    [mul(a[0], ni), mul(neg(a[1]), ni)]
}
pub fn epow(mut b: E2, mut e: u64) -> E2 {
    let mut r = [1, 0];
    while e > 0 {
        if e & 1 == 1 {
            r = emul(r, b);
        }
        b = emul(b, b);
        e >>= 1;
    }
    r
}
pub fn eis_zero(a: E2) -> bool {
    a[0] == 0 && a[1] == 0
}

/// Textbook Poseidon permutation, width 12, 4+22+4 rounds, x^7 S-box.
pub fn poseidon(mut s: [u64; 12]) -> [u64; 12] {
    let circ = <GoldilocksField as Poseidon>::MDS_MATRIX_CIRC;
    let diag = <GoldilocksField as Poseidon>::MDS_MATRIX_DIAG;
    for r in 0..30 {
        for i in 0..12 {
            s[i] = add(s[i], ALL_ROUND_CONSTANTS[i + 12 * r] % P);
        }
        let full = r < 4 || r >= 26;
        for i in 0..12 {
            if full || i == 0 {
                s[i] = pow(s[i], 7);
            }
        }
        let mut t = [0u64; 12];
        for row in 0..12 {
            let mut acc = 0u64;
            for i in 0..12 {
                acc = add(acc, mul(s[(i + row) % 12], circ[i]));
            }
            acc = add(acc, mul(s[row], diag[row]));
            t[row] = acc;
        }
        s = t;
    }
    s
}

/// Overwrite-mode sponge without padding, rate 8.
pub fn hash_no_pad(inputs: &[u64]) -> [u64; 4] {
    let mut st = [0u64; 12];
    for chunk in inputs.chunks(8) {
        for (i, &x) in chunk.iter().enumerate() {
            st[i] = x % P;
        }
        st = poseidon(st);
    }
    if inputs.is_empty() {
        // no chunk absorbed: the library squeezes the initial all-zero state
    }
    [st[0], st[1], st[2], st[3]]
}

/// Overwrite-mode sponge without padding, rate 8, squeezing `m` outputs (8 per permutation).
pub fn hash_n_to_m(inputs: &[u64], m: usize) -> Vec<u64> {
    let mut st = [0u64; 12];
    for chunk in inputs.chunks(8) {
        for (i, &x) in chunk.iter().enumerate() {
            st[i] = x % P;
        }
        st = poseidon(st);
    }
    let mut out = Vec::new();
    loop {
        for i in 0..8 {
            out.push(st[i]);
            if out.len() == m {
                return out;
            }
        }
        st = poseidon(st);
    }
}

pub fn two_to_one(a: [u64; 4], b: [u64; 4]) -> [u64; 4] {
    let mut st = [0u64; 12];
    st[..4].copy_from_slice(&a);
    st[4..8].copy_from_slice(&b);
    let st = poseidon(st);
    [st[0], st[1], st[2], st[3]]
}

pub fn hash_or_noop(inputs: &[u64]) -> [u64; 4] {
    if inputs.len() <= 4 {
        let mut o = [0u64; 4];
        for (i, &x) in inputs.iter().enumerate() {
            o[i] = x;
        }
        o
    } else {
        hash_no_pad(inputs)
    }
}

#[cfg(test)]
mod tests {
    use super::*;
    use plonky2::field::types::{Field, PrimeField64};
    use plonky2::hash::poseidon::PoseidonHash;
    use plonky2::plonk::config::Hasher;
    #[test]
    fn poseidon_matches() {
        let inp: Vec<u64> = (0..11).map(|i| i * 7919 + 3).collect();
        let f: Vec<GoldilocksField> = inp.iter().map(|&x| GoldilocksField::from_canonical_u64(x)).collect();
        let h = PoseidonHash::hash_no_pad(&f);
        let r = hash_no_pad(&inp);
        assert_eq!(h.elements.map(|x| x.to_canonical_u64()), r);
    }
}
