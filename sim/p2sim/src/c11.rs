//! C11 — the in-circuit STARK verifier agrees with the native STARK verifier, in the fixed-degree
//! mode and in the mode where one circuit sized for a maximum trace length verifies shorter proofs.
use plonky2::fri::FriParams;
use plonky2::fri::prover::final_poly_coeff_len;
use plonky2::iop::generator::generate_partial_witness;
use plonky2::iop::target::Target;
use plonky2::iop::witness::PartialWitness;
use plonky2::plonk::circuit_builder::CircuitBuilder;
use plonky2::plonk::circuit_data::{CircuitConfig, CircuitData};
use plonky2::util::timing::TimingTree;
use serde::{Deserialize, Serialize};
use serde_json::{json, Value};
use starky::proof::{StarkProofWithPublicInputs, StarkProofWithPublicInputsTarget};
use starky::prover::prove;
use starky::recursive_verifier::{add_virtual_stark_proof_with_pis, set_stark_proof_with_pis_target, verify_stark_proof_circuit};
use starky::verifier::verify_stark_proof;

use crate::c03::plan;
use crate::c09::SCfg;
use crate::core::*;
use crate::mutate::*;
use crate::pipeline::{Strat, PC};
use crate::prog::*;
use crate::sat::*;
use crate::stark::*;
use crate::with_stark;

type C = PC;

#[derive(Clone, Debug, Serialize, Deserialize)]
pub struct Case {
    pub bp: Blueprint,
    /// use a lookup table instance instead of the blueprint (fixed-degree mode only)
    pub lookup_inst: Option<Instance>,
    pub log_n: usize,
    pub cfg: SCfg,
    /// variable-degree mode: the circuit is sized for this many degree bits and supports >= min
    pub max_degree_bits: Option<usize>,
    pub min_degree_bits: usize,
    pub sched: Sched,
    pub entropy: Entropy,
    pub fault_seed: u64,
    #[serde(default)]
    pub only: Option<(usize, Option<Fault>)>,
}

pub fn gen(rng: &mut Rng, _tier: Tier) -> Value {
    let mut r = rng.sub("c11");
    let log_n = r.range(3, 6);
    let bp = gen_blueprint(&mut r, 3, true);
    let lookup_inst = if r.chance(1, 4) { Some(crate::c10::gen_lookup_instance(&mut r, log_n)) } else { None };
    let degree = lookup_inst.as_ref().map(|i| i.def.degree).unwrap_or(bp.def.degree);
    let mut cfg = SCfg::draw(&mut r, log_n, degree, true);
    cfg.num_queries = r.range(1, 4);
    cfg.security_bits = 0;
    cfg.pow_bits = *r.pick(&[0u32, 2, 5]);
    let variable = lookup_inst.is_none() && r.chance(1, 2);
    let max_degree_bits = if variable { Some(log_n + r.range(1, 6)) } else { None };
    let mut rs = rng.sub("schedule");
    let mut re = rng.sub("entropy");
    serde_json::to_value(Case { bp, lookup_inst, log_n, cfg, max_degree_bits, min_degree_bits: r.range(2, 3), sched: Sched::draw(&mut rs), entropy: Entropy::draw(&mut re), fault_seed: r.u64(), only: None }).unwrap()
}

struct Outer<const COLS: usize, const PIS: usize> {
    data: CircuitData<F, C, D>,
    pt: StarkProofWithPublicInputsTarget<D>,
    zero: Target,
    ctx: SatCtx,
}

fn viol(rep: &mut Report, case: &Case, which: usize, f: Option<&Fault>, oracle: &str, detail: String) {
    let mut c = case.clone();
    c.only = Some((which, f.cloned()));
    let kind = f.map(|m| format!("{}.{}", m.kind(), component(m.path()))).unwrap_or("unaltered".into());
    let mode = if case.max_degree_bits.is_some() { "variable_degree" } else { "fixed_degree" };
    rep.violation("C11", oracle, &format!("C11|{oracle}|{mode}|{kind}"), detail, serde_json::to_value(&c).unwrap());
}

fn exec_s<const COLS: usize, const PIS: usize>(case: &Case, rep: &mut Report) {
    let def = case.lookup_inst.as_ref().map(|i| i.def.clone()).unwrap_or(case.bp.def.clone());
    let variable = case.max_degree_bits.is_some();
    let mut circuit_bits = case.max_degree_bits.unwrap_or(case.log_n);
    if variable {
        // the prover requires the circuit's size to give the maximal final polynomial 2^(1+final_poly_bits): search nearby sizes
        for cand in circuit_bits..=(circuit_bits + 8).min(17) {
            if let Some(c) = case.cfg.admissible(cand) {
                if let Strat::ConstantArityBits(_, fb) = &c.strategy {
                    let p = c.to_config().fri_params(cand);
                    if final_poly_coeff_len(p.degree_bits, &p.reduction_arity_bits) == 1 << (1 + fb) {
                        circuit_bits = cand;
                        break;
                    }
                }
            }
        }
    }
    let circuit_bits = circuit_bits;
    // admissible configuration for the circuit's degree
    let mut scfg = match case.cfg.admissible(circuit_bits) {
        Some(c) => c,
        None => {
            rep.skip("no admissible FRI parameters");
            return;
        }
    };
    if variable {
        // the prover requires ConstantArityBits and a final polynomial of length 2^(1+final_poly_bits) at the circuit's degree
        let fb = match &scfg.strategy {
            Strat::ConstantArityBits(_, fb) => *fb,
            _ => {
                rep.skip("variable degree: strategy is not ConstantArityBits");
                return;
            }
        };
        let p = scfg.to_config().fri_params(circuit_bits);
        if final_poly_coeff_len(p.degree_bits, &p.reduction_arity_bits) != 1 << (1 + fb) {
            rep.skip("variable degree: circuit size does not give the maximal final polynomial (prover precondition)");
            return;
        }
        if scfg.cap_height > case.min_degree_bits + scfg.rate_bits {
            scfg.cap_height = 0;
        }
    }
    let cfg = scfg.to_config();
    let vparams: Option<FriParams> = if variable { Some(cfg.fri_params(circuit_bits)) } else { None };
    // ---- the proofs: in variable mode every supported shorter length, in fixed mode the announced length (and a wrong one)
    let lengths: Vec<usize> = if variable { (case.min_degree_bits..=circuit_bits.min(case.log_n + 1)).collect() } else { vec![case.log_n, case.log_n + 1] };
    let mut proofs: Vec<(usize, StarkProofWithPublicInputs<F, C, D>)> = Vec::new();
    for &l in &lengths {
        if variable {
            // precondition of the variable-degree mode: a shorter proof's final polynomial and step count fit the circuit's
            let (pl, pc) = match (guarded(|| cfg.fri_params(l)), guarded(|| cfg.fri_params(circuit_bits))) {
                (Ok(a), Ok(b)) if a.total_arities() <= l => (a, b),
                _ => {
                    rep.skip("variable degree: no FRI parameters for this shorter length");
                    continue;
                }
            };
            if final_poly_coeff_len(pl.degree_bits, &pl.reduction_arity_bits) > final_poly_coeff_len(pc.degree_bits, &pc.reduction_arity_bits)
                || pl.reduction_arity_bits.len() > pc.reduction_arity_bits.len()
                || l + scfg.rate_bits <= scfg.cap_height
            {
                rep.skip("variable degree: this shorter length is outside the circuit's supported range");
                continue;
            }
        }
        let inst = match &case.lookup_inst {
            Some(i) if l == case.log_n => i.clone(),
            Some(_) => continue,
            None => case.bp.instantiate(l),
        };
        let stark = SimStark::<COLS, PIS>::new(def.clone());
        arm(&case.sched, &case.entropy);
        let pc = if variable || l == case.log_n { cfg.clone() } else { match scfg.admissible(l) { Some(c) => c.to_config(), None => continue } };
        match guarded(|| prove::<F, C, _, D>(stark, &pc, rows_to_polys(&inst.rows, COLS), &felts(&inst.pis), vparams.clone(), &mut TimingTree::default())) {
            Ok(Ok(p)) => proofs.push((l, p)),
            _ => {
                rep.skip("base: stark prover refused this length/configuration");
            }
        }
    }
    rep.absorb_seams();
    if proofs.is_empty() {
        return;
    }
    // ---- the aggregator's circuit
    let outer = guarded(|| {
        let mut b = CircuitBuilder::<F, D>::new(CircuitConfig::standard_recursion_config());
        let zero = b.zero();
        let stark = SimStark::<COLS, PIS>::new(def.clone());
        let pt = add_virtual_stark_proof_with_pis(&mut b, &stark, &cfg, circuit_bits, 0, 0);
        verify_stark_proof_circuit::<F, C, _, D>(&mut b, stark, pt.clone(), &cfg, if variable { Some(case.min_degree_bits) } else { None });
        b.register_public_inputs(&pt.public_inputs);
        let data = b.build::<C>();
        let ctx = SatCtx::new(&data);
        Outer::<COLS, PIS> { data, pt, zero, ctx }
    });
    let outer = match outer {
        Ok(o) => o,
        Err(e) => {
            if variable {
                rep.skip(&format!("variable degree: outer circuit refused: {}", e.chars().take(60).collect::<String>()));
            } else {
                rep.case(0, true);
                viol(rep, case, 0, None, "stark_outer_circuit_build_panicked", e);
            }
            return;
        }
    };
    rep.probe(if variable { "c11.variable_degree_mode" } else { "c11.fixed_degree_mode" });
    rep.probe(&format!("c11.outer_degree_bits.{}", outer.data.common.degree_bits()));
    if !def.lookups.is_empty() {
        rep.probe("c11.inner_with_lookups");
    }
    if def.constraints.is_empty() && def.lookups.is_empty() {
        rep.probe("c11.inner_without_quotient");
    }
    let base_sig = hash_value(&json!([def, case.log_n, circuit_bits, variable])) ^ hash_str(&scfg.class());
    let native = |p: &StarkProofWithPublicInputs<F, C, D>| -> bool {
        let stark = SimStark::<COLS, PIS>::new(def.clone());
        matches!(guarded(|| verify_stark_proof::<F, C, _, D>(stark, p.clone(), &cfg, vparams.clone())), Ok(Ok(())))
    };
    let circuit = |p: &StarkProofWithPublicInputs<F, C, D>, bits: usize| -> (bool, String) {
        let r = guarded(|| {
            let mut pw = PartialWitness::new();
            set_stark_proof_with_pis_target(&mut pw, &outer.pt, p, bits, outer.zero).map_err(|e| format!("assignment: {e}"))?;
            case.entropy.arm();
            let w = generate_partial_witness(pw, &outer.data.prover_only, &outer.data.common).map_err(|e| format!("generation: {}", e.to_string().chars().take(70).collect::<String>()))?;
            let pis = public_inputs_of(&outer.data, &w);
            Ok::<Sat, String>(outer.ctx.check(&outer.data, &w.full_witness(), &pis))
        });
        match r {
            Ok(Ok(Sat::Ok)) => (true, "satisfied".into()),
            Ok(Ok(s)) => (false, format!("outer constraints violated: {}", s.kind())),
            Ok(Err(e)) => (false, e),
            Err(e) => (false, format!("panic: {}", e.chars().take(70).collect::<String>())),
        }
    };
    let mut r = Rng::new(case.fault_seed);
    let mut proved = false;
    for (which, (l, proof)) in proofs.iter().enumerate() {
        if let Some((w, _)) = &case.only {
            if *w != which {
                continue;
            }
        }
        let wrong_length = !variable && *l != case.log_n;
        // unaltered proof
        if case.only.as_ref().map_or(true, |(_, f)| f.is_none()) {
            let nat = native(proof);
            let (circ, why) = circuit(proof, *l);
            rep.fault(if wrong_length { "proof_of_another_length_than_announced" } else if variable { "valid_proof_of_supported_shorter_length" } else { "valid_proof" });
            rep.case(base_sig ^ (*l as u64) << 4, true);
            let expected = if wrong_length { false } else { nat };
            if circ != expected {
                viol(rep, case, which, None, if expected { "native_accepts_but_stark_circuit_rejects" } else { "stark_circuit_accepts_what_it_must_reject" }, format!("length 2^{l} (circuit 2^{circuit_bits}): outer {why}"));
                continue;
            }
            if circ && !proved {
                proved = true;
                // the outer proof of an agreeing accept is provable and verifies
                let mut pw = PartialWitness::new();
                let _ = set_stark_proof_with_pis_target(&mut pw, &outer.pt, proof, *l, outer.zero);
                arm(&case.sched, &case.entropy);
                rep.case(base_sig ^ hash_str("outer_prove"), true);
                match guarded(|| outer.data.prove(pw)) {
                    Ok(Ok(op)) => {
                        if !matches!(guarded(|| outer.data.verify(op.clone())), Ok(Ok(()))) {
                            viol(rep, case, which, None, "outer_proof_of_valid_stark_proof_rejected", String::new());
                        } else if op.public_inputs != proof.public_inputs {
                            viol(rep, case, which, None, "outer_proof_does_not_re_expose_stark_public_inputs", String::new());
                        }
                    }
                    other => viol(rep, case, which, None, "outer_prove_failed_for_valid_stark_proof", format!("{:?}", other.map(|r| r.map(|_| ()).map_err(|e| e.to_string())))),
                }
            }
        }
        if wrong_length {
            continue;
        }
        // tampered copies: the C09 message-fault classes incl. public inputs
        let tree = serde_json::to_value(proof).unwrap();
        let faults: Vec<Fault> = match &case.only {
            Some((_, Some(f))) => vec![f.clone()],
            Some((_, None)) => vec![],
            None => {
                let mut m = plan(&tree, &mut r, false, false);
                r.shuffle(&mut m);
                let (elems, lists): (Vec<Fault>, Vec<Fault>) = m.into_iter().partition(|f| matches!(f, Fault::Elem { .. }));
                elems.into_iter().take(if variable { 8 } else { 16 }).chain(lists.into_iter().take(3)).collect()
            }
        };
        for f in &faults {
            let mut t = tree.clone();
            if !apply(&mut t, f) || canonical(&t) == canonical(&tree) {
                continue;
            }
            let p2: StarkProofWithPublicInputs<F, C, D> = match serde_json::from_value(t) {
                Ok(p) => p,
                Err(_) => continue,
            };
            let nat = native(&p2);
            // the aggregator announces the degree the proof itself carries (as the native verifier recovers it)
            let announced = guarded(|| p2.proof.recover_degree_bits(&cfg)).unwrap_or(*l);
            let (circ, why) = circuit(&p2, announced);
            rep.fault(&format!("message.{}", f.kind()));
            rep.case(base_sig ^ (*l as u64) << 4 ^ hash_value(&serde_json::to_value(f).unwrap()), true);
            rep.probe(if nat { "c11.native_accepts_tampered" } else { "c11.native_rejects_tampered" });
            if nat != circ {
                viol(rep, case, which, Some(f), if nat { "native_accepts_but_stark_circuit_rejects" } else { "native_rejects_but_stark_circuit_accepts" }, format!("{} at {}: outer {}", f.kind(), path_str(f.path()), why));
            }
        }
    }
    rep.sample(json!({"shape": [COLS, PIS], "mode": if variable { "variable" } else { "fixed" }, "circuit_degree_bits": circuit_bits, "proof_lengths": proofs.iter().map(|p| p.0).collect::<Vec<_>>(),
        "config": scfg.class(), "outer_degree_bits": outer.data.common.degree_bits()}));
}

pub fn exec(case: &Value, rep: &mut Report) {
    let case: Case = serde_json::from_value(case.clone()).expect("malformed C11 case");
    let def = case.lookup_inst.as_ref().map(|i| i.def.clone()).unwrap_or(case.bp.def.clone());
    with_stark!(def, exec_s, &case, rep)
}

pub fn shrink(case: &Value) -> Vec<Value> {
    let c: Case = serde_json::from_value(case.clone()).unwrap();
    let mut out = Vec::new();
    if c.sched.workers > 1 {
        let mut d = c.clone();
        d.sched = Sched::sequential();
        out.push(d);
    }
    if c.cfg.num_queries > 1 {
        let mut d = c.clone();
        d.cfg.num_queries = 1;
        out.push(d);
    }
    if c.cfg.num_challenges > 1 {
        let mut d = c.clone();
        d.cfg.num_challenges = 1;
        out.push(d);
    }
    out.into_iter().map(|d| serde_json::to_value(d).unwrap()).collect()
}
