//! STARK family defined in the simulator (the repository's own examples are test-only): a
//! definition is *data* — polynomial constraints over local / next columns and public inputs, of
//! kinds first-row, last-row, transition and every-row — interpreted by one `Stark` impl per
//! (COLUMNS, PUBLIC_INPUTS) pair. The simulator wrote the definition, so it can evaluate it
//! directly on a trace (REF check) with arithmetic of its own.
use std::marker::PhantomData;

use plonky2::field::extension::{Extendable, FieldExtension};
use plonky2::field::packed::PackedField;
use plonky2::field::polynomial::PolynomialValues;
use plonky2::field::types::Field;
use plonky2::hash::hash_types::RichField;
use plonky2::iop::ext_target::ExtensionTarget;
use plonky2::plonk::circuit_builder::CircuitBuilder;
use serde::{Deserialize, Serialize};
use starky::constraint_consumer::{ConstraintConsumer, RecursiveConstraintConsumer};
use starky::evaluation_frame::{StarkEvaluationFrame, StarkFrame};
use starky::lookup::{Column, Filter, Lookup};
use starky::stark::Stark;

use crate::core::Rng;
use crate::prog::{fe, F};
use crate::refmath as rm;

#[derive(Clone, Copy, Debug, PartialEq, Serialize, Deserialize)]
pub enum Var {
    L(usize),
    N(usize),
    Pi(usize),
}

#[derive(Clone, Debug, PartialEq, Serialize, Deserialize)]
pub struct Term {
    pub coef: u64,
    pub vars: Vec<Var>,
}

#[derive(Clone, Copy, Debug, PartialEq, Serialize, Deserialize)]
pub enum Kind {
    First,
    Last,
    Transition,
    All,
}

#[derive(Clone, Debug, PartialEq, Serialize, Deserialize)]
pub struct Cons {
    pub kind: Kind,
    pub poly: Vec<Term>,
}

/// A column expression of a lookup: sum of coef * column (local, or next row) + constant.
#[derive(Clone, Debug, PartialEq, Serialize, Deserialize)]
pub struct ColSpec {
    pub local: Vec<(usize, u64)>,
    pub next: Vec<(usize, u64)>,
    pub constant: u64,
}

#[derive(Clone, Debug, PartialEq, Serialize, Deserialize)]
pub struct LookupSpec {
    pub looking: Vec<ColSpec>,
    /// optional 0/1 filter column per looking column
    pub filters: Vec<Option<usize>>,
    /// per looking column: the filter reads the filter column's value in the *next* row
    #[serde(default)]
    pub filters_next: Vec<bool>,
    pub table: usize,
    pub freq: usize,
}

impl LookupSpec {
    pub fn filter_reads_next(&self, k: usize) -> bool {
        self.filters_next.get(k).copied().unwrap_or(false)
    }
    /// Value of the k-th looking column's filter at row r (None = no filter).
    pub fn filter_value(&self, k: usize, rows: &[Vec<u64>], r: usize) -> Option<u64> {
        self.filters[k].map(|fc| if self.filter_reads_next(k) { rows[(r + 1) % rows.len()][fc] } else { rows[r][fc] })
    }
}

#[derive(Clone, Debug, PartialEq, Serialize, Deserialize)]
pub struct Def {
    pub cols: usize,
    pub pis: usize,
    pub constraints: Vec<Cons>,
    /// declared constraint degree
    pub degree: usize,
    #[serde(default)]
    pub lookups: Vec<LookupSpec>,
    /// the table takes part in cross-table lookups (multi-table system)
    #[serde(default)]
    pub ctl: bool,
}

pub const SHAPES: [(usize, usize); 6] = [(2, 0), (3, 2), (4, 1), (6, 4), (8, 2), (26, 1)];

impl Def {
    pub fn max_term_degree(&self) -> usize {
        self.constraints.iter().flat_map(|c| c.poly.iter().map(|t| t.vars.len())).max().unwrap_or(0)
    }

    /// REF: does the trace (rows x cols) with the public inputs satisfy every constraint?
    /// Returns the first violated (constraint index, row).
    pub fn check(&self, rows: &[Vec<u64>], pis: &[u64]) -> Option<(usize, usize)> {
        let n = rows.len();
        for (ci, c) in self.constraints.iter().enumerate() {
            let range: Vec<usize> = match c.kind {
                Kind::First => vec![0],
                Kind::Last => vec![n - 1],
                Kind::Transition => (0..n - 1).collect(),
                Kind::All => (0..n).collect(),
            };
            for r in range {
                let next = &rows[(r + 1) % n];
                let mut acc = 0u64;
                for t in &c.poly {
                    let mut m = t.coef % rm::P;
                    for v in &t.vars {
                        let x = match v {
                            Var::L(i) => rows[r][*i],
                            Var::N(i) => next[*i],
                            Var::Pi(k) => pis[*k],
                        };
                        m = rm::mul(m, x);
                    }
                    acc = rm::add(acc, m);
                }
                if acc != 0 {
                    return Some((ci, r));
                }
            }
        }
        None
    }

    fn col_value(cs: &ColSpec, rows: &[Vec<u64>], r: usize) -> u64 {
        let n = rows.len();
        let mut acc = cs.constant % rm::P;
        for (c, k) in &cs.local {
            acc = rm::add(acc, rm::mul(*k % rm::P, rows[r][*c]));
        }
        for (c, k) in &cs.next {
            acc = rm::add(acc, rm::mul(*k % rm::P, rows[(r + 1) % n][*c]));
        }
        acc
    }

    /// REF for lookups: every filtered looking value occurs in the table column, and the
    /// frequencies column holds, for the table as a multiset, the number of occurrences:
    /// sum over rows with table value v of freq(row) == number of filtered looking values equal to v.
    pub fn check_lookups(&self, rows: &[Vec<u64>]) -> Option<(usize, String)> {
        use std::collections::BTreeMap;
        for (li, l) in self.lookups.iter().enumerate() {
            let mut want: BTreeMap<u64, u64> = BTreeMap::new();
            for r in 0..rows.len() {
                for (k, cs) in l.looking.iter().enumerate() {
                    let fv = l.filter_value(k, rows, r);
                    let on = fv.map_or(true, |x| x == 1);
                    if fv.map_or(false, |x| x > 1) {
                        return Some((li, format!("filter value not boolean at row {r}")));
                    }
                    if on {
                        *want.entry(Self::col_value(cs, rows, r)).or_insert(0) += 1;
                    }
                }
            }
            let mut have: BTreeMap<u64, u64> = BTreeMap::new();
            for r in 0..rows.len() {
                let e = have.entry(rows[r][l.table]).or_insert(0);
                *e = rm::add(*e, rows[r][l.freq]);
            }
            for (v, c) in &want {
                if have.get(v).copied().unwrap_or(0) != *c % rm::P {
                    return Some((li, format!("value {v} looked up {c} times, table frequencies sum to {}", have.get(v).copied().unwrap_or(0))));
                }
            }
            for (v, c) in &have {
                if *c != 0 && !want.contains_key(v) {
                    return Some((li, format!("table value {v} has frequency {c} but is never looked up")));
                }
            }
        }
        None
    }
}

#[derive(Clone)]
pub struct SimStark<const COLS: usize, const PIS: usize> {
    pub def: Def,
    _p: PhantomData<F>,
}

impl<const COLS: usize, const PIS: usize> SimStark<COLS, PIS> {
    pub fn new(def: Def) -> Self {
        assert_eq!((def.cols, def.pis), (COLS, PIS));
        SimStark { def, _p: PhantomData }
    }
}

fn colspec_to_column(cs: &ColSpec) -> Column<F> {
    let lc: Vec<(usize, F)> = cs.local.iter().map(|(c, k)| (*c, fe(*k))).collect();
    let nc: Vec<(usize, F)> = cs.next.iter().map(|(c, k)| (*c, fe(*k))).collect();
    if nc.is_empty() {
        Column::linear_combination_with_constant(lc, fe(cs.constant))
    } else {
        Column::linear_combination_and_next_row_with_constant(lc, nc, fe(cs.constant))
    }
}

impl<const COLS: usize, const PIS: usize> Stark<F, 2> for SimStark<COLS, PIS> {
    type EvaluationFrame<FE, P, const D2: usize>
        = StarkFrame<P, P::Scalar, COLS, PIS>
    where
        FE: FieldExtension<D2, BaseField = F>,
        P: PackedField<Scalar = FE>;

    type EvaluationFrameTarget = StarkFrame<ExtensionTarget<2>, ExtensionTarget<2>, COLS, PIS>;

    fn eval_packed_generic<FE, P, const D2: usize>(&self, vars: &Self::EvaluationFrame<FE, P, D2>, yield_constr: &mut ConstraintConsumer<P>)
    where
        FE: FieldExtension<D2, BaseField = F>,
        P: PackedField<Scalar = FE>,
    {
        let l = vars.get_local_values();
        let n = vars.get_next_values();
        let pi = vars.get_public_inputs();
        for c in &self.def.constraints {
            let mut acc = P::ZEROS;
            for t in &c.poly {
                let mut m = P::ONES * FE::from_basefield(fe(t.coef));
                for v in &t.vars {
                    m = match v {
                        Var::L(i) => m * l[*i],
                        Var::N(i) => m * n[*i],
                        Var::Pi(k) => m * pi[*k],
                    };
                }
                acc += m;
            }
            match c.kind {
                Kind::First => yield_constr.constraint_first_row(acc),
                Kind::Last => yield_constr.constraint_last_row(acc),
                Kind::Transition => yield_constr.constraint_transition(acc),
                Kind::All => yield_constr.constraint(acc),
            }
        }
    }

    fn eval_ext_circuit(&self, b: &mut CircuitBuilder<F, 2>, vars: &Self::EvaluationFrameTarget, yield_constr: &mut RecursiveConstraintConsumer<F, 2>) {
        let l = vars.get_local_values();
        let n = vars.get_next_values();
        let pi = vars.get_public_inputs();
        for c in &self.def.constraints {
            let mut acc = b.zero_extension();
            for t in &c.poly {
                let mut m = b.constant_extension(<<F as Extendable<2>>::Extension as FieldExtension<2>>::from_basefield(fe(t.coef)));
                for v in &t.vars {
                    let x = match v {
                        Var::L(i) => l[*i],
                        Var::N(i) => n[*i],
                        Var::Pi(k) => pi[*k],
                    };
                    m = b.mul_extension(m, x);
                }
                acc = b.add_extension(acc, m);
            }
            match c.kind {
                Kind::First => yield_constr.constraint_first_row(b, acc),
                Kind::Last => yield_constr.constraint_last_row(b, acc),
                Kind::Transition => yield_constr.constraint_transition(b, acc),
                Kind::All => yield_constr.constraint(b, acc),
            }
        }
    }

    fn constraint_degree(&self) -> usize {
        self.def.degree
    }

    fn requires_ctls(&self) -> bool {
        self.def.ctl
    }

    fn lookups(&self) -> Vec<Lookup<F>> {
        self.def
            .lookups
            .iter()
            .map(|l| Lookup {
                columns: l.looking.iter().map(colspec_to_column).collect(),
                table_column: Column::single(l.table),
                frequencies_column: Column::single(l.freq),
                filter_columns: l.filters.iter().enumerate().map(|(k, f)| match f {
                    Some(c) if l.filter_reads_next(k) => Filter::new_simple(Column::single_next_row(*c)),
                    Some(c) => Filter::new_simple(Column::single(*c)),
                    None => Filter::default(),
                }).collect(),
            })
            .collect()
    }
}

pub fn rows_to_polys(rows: &[Vec<u64>], cols: usize) -> Vec<PolynomialValues<F>> {
    (0..cols).map(|c| PolynomialValues::new(rows.iter().map(|r| fe(r[c])).collect())).collect()
}

/// A generated STARK instance: definition, satisfying trace, public inputs.
#[derive(Clone, Debug, PartialEq, Serialize, Deserialize)]
pub struct Instance {
    pub def: Def,
    pub log_n: usize,
    pub rows: Vec<Vec<u64>>,
    pub pis: Vec<u64>,
}

/// A recurrence system independent of the trace length: the same definition can be instantiated
/// with traces of any power-of-two length (needed by the variable-degree recursive verifier).
#[derive(Clone, Debug, PartialEq, Serialize, Deserialize)]
pub struct Blueprint {
    pub def: Def,
    pub n_state: usize,
    pub updates: Vec<Vec<Term>>,
    pub derived: Vec<(usize, Vec<Term>)>,
    pub init: Vec<u64>,
    /// per public input: None (unconstrained) or (is_first_row, column)
    pub pi_specs: Vec<Option<(bool, usize)>>,
    pub free_seed: u64,
}

fn eval_terms(f: &Vec<Term>, row: &Vec<u64>) -> u64 {
    let mut acc = 0;
    for t in f {
        let mut m = t.coef % rm::P;
        for v in &t.vars {
            if let Var::L(i) = v {
                m = rm::mul(m, row[*i]);
            }
        }
        acc = rm::add(acc, m);
    }
    acc
}

impl Blueprint {
    pub fn instantiate(&self, log_n: usize) -> Instance {
        let n = 1usize << log_n;
        let cols = self.def.cols;
        let mut r = Rng::new(self.free_seed);
        let mut rows: Vec<Vec<u64>> = Vec::with_capacity(n);
        let mut cur = self.init.clone();
        for _ in 0..n {
            for (c, g) in &self.derived {
                cur[*c] = eval_terms(g, &cur);
            }
            rows.push(cur.clone());
            let mut nxt: Vec<u64> = (0..cols).map(|_| r.felt()).collect();
            for i in 0..self.n_state {
                nxt[i] = eval_terms(&self.updates[i], &cur);
            }
            cur = nxt;
        }
        let mut pv: Vec<u64> = Vec::new();
        let mut rp = Rng::new(self.free_seed ^ 0x5151);
        for spec in &self.pi_specs {
            pv.push(match spec {
                Some((true, c)) => rows[0][*c],
                Some((false, c)) => rows[n - 1][*c],
                None => rp.felt_biased(),
            });
        }
        Instance { def: self.def.clone(), log_n, rows, pis: pv }
    }
}

pub fn gen_blueprint(r: &mut Rng, max_degree: usize, no_constraints_ok: bool) -> Blueprint {
    let (cols, pis) = *r.pick(&SHAPES);
    if no_constraints_ok && r.chance(1, 12) {
        return Blueprint {
            def: Def { cols, pis, constraints: vec![], degree: 0, lookups: vec![], ctl: false },
            n_state: 0,
            updates: vec![],
            derived: vec![],
            init: (0..cols).map(|_| r.felt()).collect(),
            pi_specs: vec![None; pis],
            free_seed: r.u64(),
        };
    }
    let degree = r.range(1, max_degree.max(1));
    let n_state = r.range(1, cols.min(4));
    let mut constraints = Vec::new();
    let mut updates: Vec<Vec<Term>> = Vec::new();
    for i in 0..n_state {
        let nt = r.range(1, 3);
        let mut f: Vec<Term> = Vec::new();
        for _ in 0..nt {
            let d = r.range(0, degree);
            f.push(Term { coef: if r.chance(1, 2) { 1 } else { r.felt_biased() }, vars: (0..d).map(|_| Var::L(r.usize(n_state))).collect() });
        }
        if i == 0 {
            f.push(Term { coef: 1 + r.below(5), vars: (0..degree).map(|_| Var::L(r.usize(n_state))).collect() });
        }
        updates.push(f.clone());
        let mut poly = vec![Term { coef: 1, vars: vec![Var::N(i)] }];
        for t in f {
            poly.push(Term { coef: rm::neg(t.coef % rm::P), vars: t.vars });
        }
        constraints.push(Cons { kind: Kind::Transition, poly });
    }
    let mut derived: Vec<(usize, Vec<Term>)> = Vec::new();
    for c in n_state..cols {
        if r.chance(1, 2) {
            let d = r.range(1, degree);
            let g = vec![Term { coef: 1 + r.below(7), vars: (0..d).map(|_| Var::L(r.usize(n_state))).collect() }, Term { coef: r.felt_biased(), vars: vec![] }];
            let mut poly = vec![Term { coef: 1, vars: vec![Var::L(c)] }];
            for t in &g {
                poly.push(Term { coef: rm::neg(t.coef % rm::P), vars: t.vars.clone() });
            }
            constraints.push(Cons { kind: Kind::All, poly });
            derived.push((c, g));
        }
    }
    let init: Vec<u64> = (0..cols).map(|_| r.felt_biased()).collect();
    let mut pi_specs = Vec::new();
    for k in 0..pis {
        match r.below(3) {
            0 => {
                let c = r.usize(n_state);
                pi_specs.push(Some((true, c)));
                constraints.push(Cons { kind: Kind::First, poly: vec![Term { coef: 1, vars: vec![Var::L(c)] }, Term { coef: rm::P - 1, vars: vec![Var::Pi(k)] }] });
            }
            1 => {
                let c = r.usize(cols);
                pi_specs.push(Some((false, c)));
                constraints.push(Cons { kind: Kind::Last, poly: vec![Term { coef: 1, vars: vec![Var::L(c)] }, Term { coef: rm::P - 1, vars: vec![Var::Pi(k)] }] });
            }
            _ => pi_specs.push(None),
        }
    }
    if r.chance(1, 3) {
        // a first-row constraint against a constant (the initial state is part of the blueprint)
        let c = r.usize(n_state);
        constraints.push(Cons { kind: Kind::First, poly: vec![Term { coef: 1, vars: vec![Var::L(c)] }, Term { coef: rm::neg(init[c]), vars: vec![] }] });
    }
    Blueprint { def: Def { cols, pis, constraints, degree, lookups: vec![], ctl: false }, n_state, updates, derived, init, pi_specs, free_seed: r.u64() }
}

/// Draw a definition of a recurrence system together with a trace that satisfies it.
pub fn gen_instance(r: &mut Rng, log_n: usize, max_degree: usize, no_constraints_ok: bool) -> Instance {
    gen_blueprint(r, max_degree, no_constraints_ok).instantiate(log_n)
}

/// Dispatch on the (COLUMNS, PUBLIC_INPUTS) shape of a definition.
#[macro_export]
macro_rules! with_stark {
    ($def:expr, $f:ident, $($args:expr),*) => {
        match ($def.cols, $def.pis) {
            (2, 0) => $f::<2, 0>($($args),*),
            (3, 2) => $f::<3, 2>($($args),*),
            (4, 1) => $f::<4, 1>($($args),*),
            (6, 4) => $f::<6, 4>($($args),*),
            (8, 2) => $f::<8, 2>($($args),*),
            (26, 1) => $f::<26, 1>($($args),*),
            _ => panic!("unsupported STARK shape"),
        }
    };
}
