//! C10 part (ii): multi-table systems with cross-table lookups, driven by a small multi-table
//! prover / verifier that follows the library's documented flow: commit all traces -> observe all
//! caps -> get_ctl_data -> per table prove_with_commitment -> per table CtlCheckVars::from_proof +
//! verify_stark_proof_with_challenges -> verify_cross_table_lookups.
use hashbrown::HashMap;
use plonky2::field::polynomial::PolynomialValues;
use plonky2::fri::oracle::PolynomialBatch;
use plonky2::iop::challenger::Challenger;
use plonky2::plonk::config::GenericConfig;
use plonky2::util::timing::TimingTree;
use serde::{Deserialize, Serialize};
use serde_json::{json, Value};
use starky::config::StarkConfig;
use starky::cross_table_lookup::{get_ctl_data, verify_cross_table_lookups, CrossTableLookup, CtlCheckVars, TableWithColumns};
use starky::lookup::{get_grand_product_challenge_set, Column, Filter};
use starky::proof::StarkProofWithPublicInputs;
use starky::prover::prove_with_commitment;
use starky::stark::Stark;
use starky::verifier::verify_stark_proof_with_challenges;

use crate::c09::SCfg;
use crate::core::*;
use crate::pipeline::PC;
use crate::prog::*;
use crate::refmath as rm;
use crate::stark::*;

type C = PC;
const COLS: usize = 4;
const PIS: usize = 1;
type S = SimStark<COLS, PIS>;

/// One side of a cross-table lookup: table, value columns, optional 0/1 filter column.
#[derive(Clone, Debug, PartialEq, Serialize, Deserialize)]
pub struct Side {
    pub table: usize,
    pub cols: Vec<usize>,
    pub filter: Option<usize>,
}

#[derive(Clone, Debug, PartialEq, Serialize, Deserialize)]
pub struct Ctl {
    pub looking: Vec<Side>,
    pub looked: Side,
}

#[derive(Clone, Debug, PartialEq, Serialize, Deserialize)]
pub struct System {
    pub log_ns: Vec<usize>,
    /// per table: rows x 4 columns
    pub tables: Vec<Vec<Vec<u64>>>,
    pub ctls: Vec<Ctl>,
    pub degree: usize,
    /// a looking table of constraint degree 2 (only a table whose running sums all go through helper columns, i.e. one
    /// that is repeated among the looking sides, can have it: without helpers the last-row check is of degree 3)
    #[serde(default)]
    pub deg2: Option<usize>,
}

impl System {
    /// the degree handed to `get_ctl_data` (helper columns batch `degree - 1` looking entries)
    pub fn ctl_degree(&self) -> usize {
        if self.deg2.is_some() { 2 } else { self.degree }
    }
    pub fn table_degree(&self, t: usize) -> usize {
        if self.deg2 == Some(t) { 2 } else { self.degree }
    }
    fn side_rows(&self, s: &Side) -> Vec<Vec<u64>> {
        self.tables[s.table].iter().filter(|r| s.filter.map_or(true, |f| r[f] == 1)).map(|r| s.cols.iter().map(|c| r[*c]).collect()).collect()
    }
    /// REF: for each lookup, the filtered rows of the looking tables form the same multiset as the
    /// filtered rows of the looked table (filters must be boolean).
    pub fn check(&self) -> Option<String> {
        for (t, tab) in self.tables.iter().enumerate() {
            for c in &self.ctls {
                for s in c.looking.iter().chain(std::iter::once(&c.looked)) {
                    if s.table == t {
                        if let Some(f) = s.filter {
                            if let Some(i) = tab.iter().position(|r| r[f] > 1) {
                                return Some(format!("table {t} row {i}: filter not boolean"));
                            }
                        }
                    }
                }
            }
        }
        for (i, c) in self.ctls.iter().enumerate() {
            let mut a: Vec<Vec<u64>> = c.looking.iter().flat_map(|s| self.side_rows(s)).collect();
            let mut b = self.side_rows(&c.looked);
            a.sort();
            b.sort();
            if a != b {
                return Some(format!("lookup {i}: looking multiset ({} rows) != looked multiset ({} rows)", a.len(), b.len()));
            }
        }
        None
    }
    fn def(&self, t: usize) -> Def {
        // filters used on this table must be boolean: an every-row constraint
        let mut fs: Vec<usize> = Vec::new();
        for c in &self.ctls {
            for s in c.looking.iter().chain(std::iter::once(&c.looked)) {
                if s.table == t {
                    if let Some(f) = s.filter {
                        if !fs.contains(&f) {
                            fs.push(f);
                        }
                    }
                }
            }
        }
        let constraints = fs.iter().map(|f| Cons { kind: Kind::All, poly: vec![Term { coef: 1, vars: vec![Var::L(*f), Var::L(*f)] }, Term { coef: rm::P - 1, vars: vec![Var::L(*f)] }] }).collect();
        Def { cols: COLS, pis: PIS, constraints, degree: self.table_degree(t), lookups: vec![], ctl: true }
    }
}

fn twc(s: &Side) -> TableWithColumns<F> {
    TableWithColumns::new(s.table, s.cols.iter().map(|c| Column::single(*c)).collect(), match s.filter {
        Some(f) => Filter::new_simple(Column::single(f)),
        None => Filter::default(),
    })
}

pub fn gen_system(r: &mut Rng, n_tables: usize) -> System {
    let log_ns: Vec<usize> = (0..n_tables).map(|_| r.range(2, 5)).collect();
    // columns: 0,1 values; 2 filter A; 3 filter B
    let mut tables: Vec<Vec<Vec<u64>>> = log_ns.iter().map(|l| (0..1usize << l).map(|_| vec![r.felt(), r.felt(), 0, 0]).collect()).collect();
    let looked_t = r.usize(n_tables);
    let others: Vec<usize> = (0..n_tables).filter(|t| *t != looked_t).collect();
    let width = r.range(1, 2);
    let mut ctls = Vec::new();
    let mut deg2: Option<usize> = None;
    match if width == 1 { r.below(4) } else { 0 } {
        1 => {
            // a looking table that appears twice in the same lookup (two column sets, two filters): helper columns
            let mut looking: Vec<Side> = others.iter().map(|t| Side { table: *t, cols: vec![0], filter: Some(2) }).collect();
            let t = *r.pick(&others);
            if r.chance(1, 2) {
                deg2 = Some(t);
            }
            looking.push(Side { table: t, cols: vec![1], filter: Some(3) });
            // sides of the same table must be adjacent: the prover groups looking tables with a
            // consecutive group_by, the verifier by table (observed: a non-adjacent repetition is not provable)
            looking.sort_by_key(|s| s.table);
            ctls.push(Ctl { looking, looked: Side { table: looked_t, cols: vec![0], filter: Some(2) } });
        }
        2 => {
            // two lookups over the same tables, on different columns and filters
            ctls.push(Ctl { looking: others.iter().map(|t| Side { table: *t, cols: vec![0], filter: Some(2) }).collect(), looked: Side { table: looked_t, cols: vec![0], filter: Some(2) } });
            ctls.push(Ctl { looking: others.iter().map(|t| Side { table: *t, cols: vec![1], filter: Some(3) }).collect(), looked: Side { table: looked_t, cols: vec![1], filter: Some(3) } });
        }
        3 => {
            // the looked table also looks into itself (other columns, other filter) next to the other tables:
            // its openings hold a looking sum and a looked sum which the verifier must not mix up
            let mut looking: Vec<Side> = others.iter().map(|t| Side { table: *t, cols: vec![0], filter: Some(2) }).collect();
            looking.push(Side { table: looked_t, cols: vec![1], filter: Some(3) });
            looking.sort_by_key(|s| s.table);
            ctls.push(Ctl { looking, looked: Side { table: looked_t, cols: vec![0], filter: Some(2) } });
        }
        _ => {
            let cols: Vec<usize> = (0..width).collect();
            ctls.push(Ctl { looking: others.iter().map(|t| Side { table: *t, cols: cols.clone(), filter: Some(2) }).collect(), looked: Side { table: looked_t, cols, filter: Some(2) } });
        }
    }
    // make the system satisfy its lookups: the active looked rows are distributed over the looking sides
    for c in ctls.clone() {
        let lt = c.looked.table;
        let lf = c.looked.filter.unwrap();
        let mut active: Vec<usize> = Vec::new();
        for i in 0..tables[lt].len() {
            let b = r.chance(1, 2) as u64;
            tables[lt][i][lf] = b;
            if b == 1 {
                active.push(i);
            }
        }
        let mut slots: Vec<(usize, usize)> = Vec::new(); // (side index, row)
        for (si, s) in c.looking.iter().enumerate() {
            for i in 0..tables[s.table].len() {
                tables[s.table][i][s.filter.unwrap()] = 0;
                slots.push((si, i));
            }
        }
        r.shuffle(&mut slots);
        // duplicates among looked tuples (heavy repetition) every third system
        if r.chance(1, 3) && active.len() >= 2 {
            let src = active[0];
            for &dst in active.iter().skip(1).step_by(2) {
                for cc in &c.looked.cols {
                    let v = tables[lt][src][*cc];
                    tables[lt][dst][*cc] = v;
                }
            }
        }
        for (j, &ai) in active.iter().enumerate() {
            if j < slots.len() {
                let (si, i) = slots[j];
                let s = &c.looking[si];
                for (cc, lc) in s.cols.iter().zip(&c.looked.cols) {
                    let v = tables[lt][ai][*lc];
                    tables[s.table][i][*cc] = v;
                }
                tables[s.table][i][s.filter.unwrap()] = 1;
            } else {
                tables[lt][ai][lf] = 0;
            }
        }
    }
    // cross-table lookup constraints are of degree 3; the repeated looking table may be of degree 2
    System { log_ns, tables, ctls, degree: 3, deg2 }
}

pub struct MultiProof {
    pub proofs: Vec<StarkProofWithPublicInputs<F, C, D>>,
}

fn to_arr<T: std::fmt::Debug, const N: usize>(v: Vec<T>) -> [T; N] {
    v.try_into().expect("table count")
}

/// Running sums and helper columns of one lookup side group, computed by the simulator
/// (needed by the Byzantine prover that shifts a running sum: the library's data is not writable).
fn group_columns(sys: &System, sides: &[&Side], beta: F, gamma: F, degree: usize) -> (Vec<PolynomialValues<F>>, Vec<F>) {
    use plonky2::field::types::Field;
    let t = sides[0].table;
    let n = sys.tables[t].len();
    let terms: Vec<Vec<F>> = sides
        .iter()
        .map(|s| {
            let comb: Vec<F> = (0..n)
                .map(|r| {
                    let mut acc = F::ZERO;
                    for c in s.cols.iter().rev() {
                        acc = acc * beta + fe(sys.tables[t][r][*c]);
                    }
                    acc + gamma
                })
                .collect();
            let inv = F::batch_multiplicative_inverse(&comb);
            (0..n).map(|r| inv[r] * fe(s.filter.map_or(1, |f| sys.tables[t][r][f]))).collect()
        })
        .collect();
    let helpers: Vec<Vec<F>> = terms.chunks(degree - 1).map(|ch| (0..n).map(|r| ch.iter().map(|c| c[r]).sum::<F>()).collect()).collect();
    let mut z = vec![F::ZERO; n];
    for r in (0..n).rev() {
        let x: F = helpers.iter().map(|h| h[r]).sum();
        z[r] = if r == n - 1 { x } else { z[r + 1] + x };
    }
    let hcols = if sides.len() > 1 { helpers.into_iter().map(PolynomialValues::new).collect() } else { vec![] };
    (hcols, z)
}

/// The multi-table prover node. `shift_looking`: Byzantine strategy — the running sum of the first
/// looking group is shifted by a constant so that the cross-table totals match although the multisets differ.
pub fn multi_prove_with<const N: usize>(sys: &System, cfg: &StarkConfig, own_ctl_data: bool, shift_looking: bool) -> Result<MultiProof, String> {
    use starky::cross_table_lookup::{CtlData, CtlZData};
    let r = guarded(|| {
        let starks: Vec<S> = (0..N).map(|t| S::new(sys.def(t))).collect();
        let traces: Vec<Vec<PolynomialValues<F>>> = sys.tables.iter().map(|t| rows_to_polys(t, COLS)).collect();
        let commitments: Vec<PolynomialBatch<F, C, D>> = traces
            .iter()
            .map(|t| PolynomialBatch::<F, C, D>::from_values(t.clone(), cfg.fri_config.rate_bits, false, cfg.fri_config.cap_height, &mut TimingTree::default(), None))
            .collect();
        let mut challenger = Challenger::<F, <C as GenericConfig<D>>::Hasher>::new();
        for c in &commitments {
            challenger.observe_cap(&c.merkle_tree.cap);
        }
        let ctl_challenges = get_grand_product_challenge_set(&mut challenger, cfg.num_challenges);
        // column descriptions must outlive the data
        let store: Vec<(Vec<Vec<Column<F>>>, Vec<Column<F>>)> = sys
            .ctls
            .iter()
            .map(|c| (c.looking.iter().map(|s| s.cols.iter().map(|x| Column::single(*x)).collect()).collect(), c.looked.cols.iter().map(|x| Column::single(*x)).collect()))
            .collect();
        let filt = |s: &Side| match s.filter {
            Some(f) => Filter::new_simple(Column::single(f)),
            None => Filter::default(),
        };
        let mut data: Vec<CtlData<F>> = (0..N).map(|_| CtlData::default()).collect();
        for (ci, c) in sys.ctls.iter().enumerate() {
            for ch in &ctl_challenges.challenges {
                // consecutive groups of looking sides by table
                let mut groups: Vec<Vec<usize>> = Vec::new();
                for (i, s) in c.looking.iter().enumerate() {
                    match groups.last_mut() {
                        Some(g) if c.looking[g[0]].table == s.table => g.push(i),
                        _ => groups.push(vec![i]),
                    }
                }
                let mut computed: Vec<(usize, Vec<usize>, Vec<PolynomialValues<F>>, Vec<F>)> = groups
                    .iter()
                    .map(|g| {
                        let sides: Vec<&Side> = g.iter().map(|i| &c.looking[*i]).collect();
                        let (h, z) = group_columns(sys, &sides, ch.beta, ch.gamma, sys.ctl_degree());
                        (sides[0].table, g.clone(), h, z)
                    })
                    .collect();
                let (_, looked_z) = group_columns(sys, &[&c.looked], ch.beta, ch.gamma, sys.ctl_degree());
                if shift_looking {
                    use plonky2::field::types::Field;
                    let total: F = computed.iter().map(|x| x.3[0]).sum();
                    let delta = looked_z[0] - total;
                    // prefer a group with helper columns (a repeated looking table)
                    let k = computed.iter().position(|x| !x.2.is_empty()).unwrap_or(0);
                    for v in computed[k].3.iter_mut() {
                        *v += delta;
                    }
                }
                for (t, g, h, z) in computed {
                    data[t].zs_columns.push(CtlZData::new(h, PolynomialValues::new(z), *ch, g.iter().map(|i| &store[ci].0[*i][..]).collect(), g.iter().map(|i| filt(&c.looking[*i])).collect()));
                }
                data[c.looked.table].zs_columns.push(CtlZData::new(vec![], PolynomialValues::new(looked_z), *ch, vec![&store[ci].1[..]], vec![filt(&c.looked)]));
            }
        }
        let ctls: Vec<CrossTableLookup<F>> = sys.ctls.iter().map(|c| CrossTableLookup::new(c.looking.iter().map(twc).collect(), twc(&c.looked))).collect();
        let lib_data;
        let used: &[CtlData<F>] = if own_ctl_data {
            &data
        } else {
            let mut ch2 = Challenger::<F, <C as GenericConfig<D>>::Hasher>::new();
            for c in &commitments {
                ch2.observe_cap(&c.merkle_tree.cap);
            }
            let traces_arr: [Vec<PolynomialValues<F>>; N] = to_arr(traces.clone());
            let (_c, d) = get_ctl_data::<F, C, D, N>(cfg, &traces_arr, &ctls, &mut ch2, sys.ctl_degree());
            lib_data = d;
            &lib_data
        };
        let mut proofs = Vec::new();
        for t in 0..N {
            let mut ch = challenger.clone();
            cfg.observe(&mut ch);
            let pis = vec![fe(7 + t as u64)];
            let p = prove_with_commitment(&starks[t], cfg, &traces[t], &commitments[t], Some(&used[t]), Some(&ctl_challenges), &mut ch, &pis, None, None, &mut TimingTree::default())
                .map_err(|e| format!("table {t}: {e}"))?;
            proofs.push(p);
        }
        Ok::<MultiProof, String>(MultiProof { proofs })
    });
    match r {
        Ok(x) => x,
        Err(e) => Err(format!("panic: {e}")),
    }
}

pub fn multi_prove<const N: usize>(sys: &System, cfg: &StarkConfig) -> Result<MultiProof, String> {
    multi_prove_with::<N>(sys, cfg, false, false)
}

#[allow(dead_code)]
fn multi_prove_old<const N: usize>(sys: &System, cfg: &StarkConfig) -> Result<MultiProof, String> {
    let r = guarded(|| {
        let starks: Vec<S> = (0..N).map(|t| S::new(sys.def(t))).collect();
        let traces: Vec<Vec<PolynomialValues<F>>> = sys.tables.iter().map(|t| rows_to_polys(t, COLS)).collect();
        let commitments: Vec<PolynomialBatch<F, C, D>> = traces
            .iter()
            .map(|t| PolynomialBatch::<F, C, D>::from_values(t.clone(), cfg.fri_config.rate_bits, false, cfg.fri_config.cap_height, &mut TimingTree::default(), None))
            .collect();
        let mut challenger = Challenger::<F, <C as GenericConfig<D>>::Hasher>::new();
        for c in &commitments {
            challenger.observe_cap(&c.merkle_tree.cap);
        }
        let ctls: Vec<CrossTableLookup<F>> = sys.ctls.iter().map(|c| CrossTableLookup::new(c.looking.iter().map(twc).collect(), twc(&c.looked))).collect();
        let traces_arr: [Vec<PolynomialValues<F>>; N] = to_arr(traces.clone());
        let (ctl_challenges, ctl_data) = get_ctl_data::<F, C, D, N>(cfg, &traces_arr, &ctls, &mut challenger, sys.ctl_degree());
        let mut proofs = Vec::new();
        for t in 0..N {
            let mut ch = challenger.clone();
            cfg.observe(&mut ch);
            let pis = vec![fe(7 + t as u64)];
            let p = prove_with_commitment(&starks[t], cfg, &traces[t], &commitments[t], Some(&ctl_data[t]), Some(&ctl_challenges), &mut ch, &pis, None, None, &mut TimingTree::default())
                .map_err(|e| format!("table {t}: {e}"))?;
            proofs.push(p);
        }
        Ok::<MultiProof, String>(MultiProof { proofs })
    });
    match r {
        Ok(x) => x,
        Err(e) => Err(format!("panic: {e}")),
    }
}

/// The multi-table verifier node: three stages.
pub fn multi_verify<const N: usize>(sys: &System, cfg: &StarkConfig, mp: &MultiProof) -> Result<(), String> {
    let r = guarded(|| {
        let starks: Vec<S> = (0..N).map(|t| S::new(sys.def(t))).collect();
        let ctls: Vec<CrossTableLookup<F>> = sys.ctls.iter().map(|c| CrossTableLookup::new(c.looking.iter().map(twc).collect(), twc(&c.looked))).collect();
        let mut challenger = Challenger::<F, <C as GenericConfig<D>>::Hasher>::new();
        for p in &mp.proofs {
            challenger.observe_cap(&p.proof.trace_cap);
        }
        let ctl_challenges = get_grand_product_challenge_set(&mut challenger, cfg.num_challenges);
        let mut firsts: Vec<Vec<F>> = Vec::new();
        for t in 0..N {
            let p = &mp.proofs[t];
            let (total_helpers, _num_zs, helpers_by_ctl) = CrossTableLookup::num_ctl_helpers_zs_all(&ctls, t, cfg.num_challenges, starks[t].constraint_degree());
            let ctl_vars = CtlCheckVars::from_proof::<C>(t, &p.proof, &ctls, &ctl_challenges, starks[t].num_lookup_helper_columns(cfg), total_helpers, &helpers_by_ctl);
            let mut ch = challenger.clone();
            let challenges = p.proof.get_challenges(&starks[t], &p.public_inputs, &mut ch, Some(&ctl_challenges), Some(&ctl_vars), true, cfg, None);
            verify_stark_proof_with_challenges(&starks[t], &p.proof, &challenges, Some(&ctl_vars), &p.public_inputs, cfg).map_err(|e| format!("table {t}: {e}"))?;
            firsts.push(p.proof.openings.ctl_zs_first.clone().ok_or_else(|| format!("table {t}: no ctl_zs_first"))?);
        }
        let arr: [Vec<F>; N] = to_arr(firsts);
        verify_cross_table_lookups::<F, D, N>(&ctls, arr, &HashMap::new(), cfg).map_err(|e| format!("cross-table: {e}"))
    });
    match r {
        Ok(x) => x,
        Err(e) => Err(format!("panic: {e}")),
    }
}

#[derive(Clone, Debug, Serialize, Deserialize)]
pub struct Case {
    pub sys: System,
    pub cfg: SCfg,
    pub sched: Sched,
    pub fault_seed: u64,
    /// replay: (table, row, col, new value)
    #[serde(default)]
    pub only: Option<(usize, usize, usize, u64)>,
}

pub fn gen_case(r: &mut Rng, rs: &mut Rng) -> Case {
    let n = r.range(2, 3);
    let sys = gen_system(r, n);
    let max_log = *sys.log_ns.iter().max().unwrap();
    let min_log = *sys.log_ns.iter().min().unwrap();
    let mut cfg = SCfg::draw(r, max_log, sys.degree, false);
    cfg.hash = "poseidon".into();
    // one configuration serves every table: keep the schedule admissible for the shortest one
    cfg.strategy = crate::pipeline::Strat::ConstantArityBits(1, r.range(0, min_log.min(2)));
    cfg.cap_height = cfg.cap_height.min(min_log);
    Case { sys, cfg, sched: Sched::draw(rs), fault_seed: r.u64(), only: None }
}

fn run<const N: usize>(sys: &System, cfg: &StarkConfig, sched: &Sched) -> (bool, String) {
    sched.arm();
    match multi_prove::<N>(sys, cfg) {
        Ok(mp) => match multi_verify::<N>(sys, cfg, &mp) {
            Ok(()) => (true, "accepted".into()),
            Err(e) => (false, format!("verifier: {}", e.chars().take(90).collect::<String>())),
        },
        Err(e) => (false, format!("prover: {}", e.chars().take(90).collect::<String>())),
    }
}

fn viol(rep: &mut Report, case: &Case, f: Option<(usize, usize, usize, u64)>, role: &str, oracle: &str, detail: String) {
    let mut c = case.clone();
    c.only = f;
    rep.violation("C10", oracle, &format!("C10|ctl|{oracle}|{role}"), detail, json!({"ctl": c}));
}

fn exec_n<const N: usize>(case: &Case, rep: &mut Report) {
    let sys = &case.sys;
    let scfg = &case.cfg;
    let cfg = scfg.to_config();
    if sys.check().is_some() {
        rep.skip("harness: generated multi-table system does not satisfy its lookups");
        return;
    }
    let base_sig = hash_value(&json!([sys.log_ns, sys.ctls, sys.degree, sys.deg2])) ^ hash_str(&scfg.class()) ^ fnv(&sys.tables.iter().flatten().flatten().flat_map(|x| x.to_le_bytes()).collect::<Vec<u8>>());
    rep.probe(&format!("c10.ctl.tables.{N}"));
    rep.probe(&format!("c10.ctl.lookups.{}", sys.ctls.len()));
    rep.probe(&format!("c10.ctl.challenges.{}", scfg.num_challenges));
    if sys.ctls.iter().any(|c| c.looking.iter().any(|s| s.table == c.looked.table)) {
        rep.probe("c10.ctl.table_looks_into_itself");
    }
    if sys.ctls.iter().any(|c| c.looking.iter().any(|a| c.looking.iter().filter(|b| b.table == a.table).count() > 1)) {
        rep.probe("c10.ctl.repeated_looking_table(helper_columns)");
        if sys.deg2.is_some() {
            rep.probe("c10.ctl.repeated_looking_table_of_degree_2");
        }
    }
    if sys.ctls.iter().any(|c| c.looking.len() > 1) {
        rep.probe("c10.ctl.several_looking_tables");
    }
    let self_lookup = sys.ctls.iter().any(|c| c.looking.iter().any(|s| s.table == c.looked.table));
    // ---- final stage alone (`verify_cross_table_lookups`): balanced first-row sums are accepted, a shifted one is not.
    // The stage reads no challenge, so any sums with looked = Σ looking are honest input; per table the openings are
    // laid out lookup by lookup, challenge by challenge, the looking sum before the looked sum.
    if case.only.is_none() {
        let mut r = Rng::new(case.fault_seed ^ 0x5e1f);
        let ctls: Vec<CrossTableLookup<F>> = sys.ctls.iter().map(|c| CrossTableLookup::new(c.looking.iter().map(twc).collect(), twc(&c.looked))).collect();
        let mut firsts: Vec<Vec<F>> = vec![Vec::new(); N];
        for c in &sys.ctls {
            for _ in 0..cfg.num_challenges {
                let mut tabs: Vec<usize> = c.looking.iter().map(|s| s.table).collect();
                tabs.dedup();
                let mut sum = 0u64;
                for t in tabs {
                    let v = r.felt();
                    sum = rm::add(sum, v);
                    firsts[t].push(fe(v));
                }
                firsts[c.looked.table].push(fe(sum));
            }
        }
        let stage = |f: Vec<Vec<F>>| guarded(|| verify_cross_table_lookups::<F, D, N>(&ctls, to_arr(f), &HashMap::new(), &cfg).is_ok()).unwrap_or(false);
        rep.case(base_sig ^ hash_str("final_stage.balanced"), true);
        if !stage(firsts.clone()) {
            return viol(rep, case, None, "final_stage.balanced", "balanced_first_row_sums_rejected", "verify_cross_table_lookups rejected looked = sum of looking".into());
        }
        let t = r.usize(N);
        if !firsts[t].is_empty() {
            use plonky2::field::types::Field;
            let i = r.usize(firsts[t].len());
            let mut bad = firsts.clone();
            bad[t][i] += F::ONE;
            rep.case(base_sig ^ hash_str("final_stage.shifted"), true);
            rep.fault("c10.ctl.final_stage_sum_shifted");
            if stage(bad) {
                return viol(rep, case, None, "final_stage.shifted", "unbalanced_first_row_sums_accepted", format!("table {t} opening {i} shifted by one"));
            }
        }
    }
    let (ok, why) = run::<N>(sys, &cfg, &case.sched);
    rep.absorb_seams();
    rep.case(base_sig, true);
    if !ok {
        // a table that looks into itself is keyed apart: the library's own `num_ctl_helpers_zs_all` counts the looking
        // and the looked appearance as one running sum with a helper column, `from_proof` and the prover as two sums
        return viol(rep, case, None, if self_lookup { "honest.table_looks_into_itself" } else { "honest" }, "honest_multi_table_system_not_accepted", why);
    }
    // the simulator's own running sums give the same verdict as the library's (calibration of the Byzantine prover)
    if case.only.is_none() {
        case.sched.arm();
        rep.case(base_sig ^ hash_str("own_ctl_data"), true);
        match multi_prove_with::<N>(sys, &cfg, true, false) {
            Ok(mp) if multi_verify::<N>(sys, &cfg, &mp).is_ok() => rep.probe("c10.ctl.own_running_sums_accepted"),
            _ => {
                rep.probe("c10.ctl.own_running_sums_rejected(strategy disabled)");
            }
        }
    }
    let mut r = Rng::new(case.fault_seed);
    let mut plan: Vec<(usize, usize, usize, u64, String)> = Vec::new();
    if let Some((t, row, col, v)) = case.only {
        plan.push((t, row, col, v, "replay".into()));
    } else {
        for c in &sys.ctls {
            for (side, name) in c.looking.iter().map(|s| (s, "looking")).chain(std::iter::once((&c.looked, "looked"))) {
                let t = side.table;
                let n = sys.tables[t].len();
                let act: Vec<usize> = (0..n).filter(|i| side.filter.map_or(true, |f| sys.tables[t][*i][f] == 1)).collect();
                let inact: Vec<usize> = (0..n).filter(|i| !act.contains(i)).collect();
                if !act.is_empty() {
                    let row = *r.pick(&act);
                    let col = *r.pick(&side.cols);
                    plan.push((t, row, col, rm::add(sys.tables[t][row][col], 1), format!("{name}.value_altered")));
                    if let Some(f) = side.filter {
                        plan.push((t, row, f, 0, format!("{name}.value_missing(filter off)")));
                    }
                }
                if !inact.is_empty() {
                    if let Some(f) = side.filter {
                        plan.push((t, *r.pick(&inact), f, 1, format!("{name}.value_extra(filter on)")));
                    }
                    let row = *r.pick(&inact);
                    plan.push((t, row, *r.pick(&side.cols), r.felt(), format!("{name}.inactive_row_changed")));
                }
            }
        }
    }
    for (t, row, col, nv, role) in &plan {
        if sys.tables[*t][*row][*col] == *nv {
            continue;
        }
        let mut s2 = sys.clone();
        s2.tables[*t][*row][*col] = *nv;
        let violated = s2.check();
        rep.fault(&format!("ctl.{role}"));
        rep.case(base_sig ^ hash_value(&json!([t, row, col, nv])), violated.is_some());
        let (ok, why) = run::<N>(&s2, &cfg, &case.sched);
        if violated.is_some() {
            // Byzantine prover: honest helper columns for the faulted traces, a looking running sum shifted so that the totals match
            case.sched.arm();
            rep.fault(&format!("ctl.{role}+shifted_running_sum"));
            rep.case(base_sig ^ hash_value(&json!(["shift", t, row, col, nv])), true);
            if let Ok(mp) = multi_prove_with::<N>(&s2, &cfg, true, true) {
                if multi_verify::<N>(&s2, &cfg, &mp).is_ok() {
                    viol(rep, case, Some((*t, *row, *col, *nv)), role, "accepted_cross_table_lookup_with_shifted_running_sum", format!("table {t} row {row} col {col}: {}", violated.clone().unwrap()));
                }
            }
        }
        if violated.is_some() && ok {
            viol(rep, case, Some((*t, *row, *col, *nv)), role, "accepted_cross_table_lookup_with_unequal_multisets", format!("table {t} row {row} col {col}: {}", violated.unwrap()));
        } else if violated.is_none() && !ok {
            viol(rep, case, Some((*t, *row, *col, *nv)), role, "satisfying_multi_table_system_not_accepted", format!("table {t} row {row} col {col}: {why}"));
        } else if violated.is_none() {
            rep.probe("c10.ctl.change_kept_multisets_equal_and_accepted");
        }
    }
    rep.sample(json!({"mode": "cross_table", "tables": sys.log_ns, "lookups": sys.ctls, "degree": sys.degree, "config": scfg.class(), "faults": plan.len()}));
}

pub fn exec(case: &Value, rep: &mut Report) {
    let case: Case = serde_json::from_value(case.clone()).expect("malformed C10 ctl case");
    match case.sys.tables.len() {
        2 => exec_n::<2>(&case, rep),
        3 => exec_n::<3>(&case, rep),
        _ => rep.skip("unsupported table count"),
    }
}
