//! C05 — FRI opening proofs attest only true evaluations of low-degree polynomials.
//! FRI as its own two-party system through its public API: a prover node (honest or Byzantine)
//! and a verifier node with its own transcript; faults also under challenges HELD FIXED, which
//! separates each algebraic check from Fiat–Shamir masking.
use plonky2::batch_fri::oracle::BatchFriOracle;
use plonky2::batch_fri::verifier::verify_batch_fri_proof;
use plonky2::field::extension::FieldExtension;
use plonky2::field::polynomial::PolynomialCoeffs;
use plonky2::field::types::{Field, PrimeField64};
use plonky2::fri::oracle::PolynomialBatch;
use plonky2::fri::proof::{FriChallenges, FriProof};
use plonky2::fri::prover::fri_proof;
use plonky2::fri::structure::{FriBatchInfo, FriInstanceInfo, FriOpeningBatch, FriOpenings, FriOracleInfo, FriPolynomialInfo};
use plonky2::fri::verifier::verify_fri_proof;
use plonky2::fri::{FriConfig, FriParams};
use plonky2::hash::merkle_tree::MerkleCap;
use plonky2::iop::challenger::Challenger;
use plonky2::plonk::config::GenericConfig;
use plonky2::util::reducing::ReducingFactor;
use plonky2::util::timing::TimingTree;
use serde::{Deserialize, Serialize};
use serde_json::{json, Value};

use crate::core::*;
use crate::mutate::*;
use crate::pipeline::{Cfg, Strat, KC, PC};
use crate::prog::*;
use crate::refmath as rm;

#[derive(Clone, Debug, Serialize, Deserialize)]
pub struct Case {
    pub degree_bits: usize,
    /// (number of polynomials, blinding) per oracle
    pub oracles: Vec<(usize, bool)>,
    /// per opening point: list of (oracle, polynomial) opened there
    pub points: Vec<Vec<(usize, usize)>>,
    pub rate_bits: usize,
    pub cap_height: usize,
    pub pow_bits: u32,
    pub strategy: Strat,
    pub num_queries: usize,
    pub hiding: bool,
    pub hash: String,
    pub coeff_seed: u64,
    pub sched: Sched,
    pub entropy: Entropy,
    pub fault_seed: u64,
    /// batch variant: degree bits of additional (smaller) polynomial groups
    pub batch_degrees: Vec<usize>,
    #[serde(default)]
    pub only: Option<String>,
}

pub fn gen(rng: &mut Rng, _tier: Tier) -> Value {
    let mut r = rng.sub("c05");
    let degree_bits = r.range(2, 8);
    let no = r.range(1, 4);
    let hiding = r.chance(1, 3);
    let oracles: Vec<(usize, bool)> = (0..no).map(|_| (r.range(1, 6), r.chance(1, 2))).collect();
    let np = r.range(1, 3);
    // every third instance with several oracles and points: one oracle is opened only at a later point
    // (the PLONK and STARK instances open everything at the first point; the FRI API does not require it)
    let late: Option<usize> = if oracles.len() >= 2 && np >= 2 && r.chance(1, 3) { Some(r.usize(oracles.len())) } else { None };
    let mut points = Vec::new();
    for p in 0..np {
        let mut l = Vec::new();
        for (o, (n, _)) in oracles.iter().enumerate() {
            for j in 0..*n {
                if late == Some(o) {
                    if p >= 1 && (j == 0 && p == 1 || r.chance(1, 2)) {
                        l.push((o, j));
                    }
                } else if p == 0 || r.chance(1, 2) {
                    l.push((o, j));
                }
            }
        }
        if l.is_empty() {
            l.push((0, 0));
        }
        points.push(l);
    }
    let rate_bits = r.range(1, 3);
    let cap_height = r.range(0, 3.min(degree_bits));
    let strategy = match r.below(4) {
        0 => {
            let mut v = Vec::new();
            let mut left = degree_bits;
            while left > 0 && r.chance(3, 4) && v.len() < 4 {
                let a = r.range(1, left.min(3));
                v.push(a);
                left -= a;
            }
            Strat::Fixed(v)
        }
        1 => Strat::MinSize(if r.chance(1, 2) { None } else { Some(r.range(1, 4)) }),
        _ => Strat::ConstantArityBits(r.range(1, 3.min(degree_bits)), r.range(0, 3)),
    };
    let lde = degree_bits + rate_bits;
    let num_queries = (64 + lde - 1) / lde + r.range(0, 6);
    let batch = r.chance(1, 3) && degree_bits >= 4;
    let mut batch_degrees = Vec::new();
    let mut strategy = strategy;
    if batch {
        // the batched prover requires every smaller degree to be met exactly by the folding schedule
        let k = r.range(2, 4);
        let mut ar = Vec::new();
        let mut cur = degree_bits;
        let mut hits = Vec::new();
        for _ in 0..k {
            if cur <= 1 {
                break;
            }
            let a = r.range(1, (cur - 1).min(3));
            ar.push(a);
            cur -= a;
            hits.push(cur);
        }
        for h in hits {
            if r.chance(2, 3) || batch_degrees.is_empty() {
                batch_degrees.push(h);
            }
        }
        strategy = Strat::Fixed(ar);
    }
    let mut rs = rng.sub("schedule");
    let mut re = rng.sub("entropy");
    serde_json::to_value(Case {
        degree_bits,
        oracles,
        points,
        rate_bits,
        cap_height,
        pow_bits: *r.pick(&[0u32, 0, 3, 8, 12]),
        strategy,
        num_queries,
        hiding,
        hash: if r.chance(1, 4) { "keccak".into() } else { "poseidon".into() },
        coeff_seed: r.u64(),
        sched: Sched::draw(&mut rs),
        entropy: Entropy::draw(&mut re),
        fault_seed: r.u64(),
        batch_degrees,
        only: None,
    })
    .unwrap()
}

fn params_of(case: &Case) -> Option<FriParams> {
    let mut cfg = Cfg::standard();
    cfg.rate_bits = case.rate_bits;
    cfg.cap_height = case.cap_height;
    cfg.pow_bits = case.pow_bits;
    cfg.strategy = case.strategy.clone();
    cfg.num_query_rounds = case.num_queries;
    let fc: FriConfig = cfg.to_circuit_config().fri_config;
    let p = guarded(|| fc.fri_params(case.degree_bits, case.hiding)).ok()?;
    // the documented admissibility predicates of a parameter set
    if p.total_arities() > case.degree_bits || p.total_arities() > case.degree_bits + case.rate_bits - case.cap_height {
        return None;
    }
    Some(p)
}

fn ext(e: FE) -> [u64; 2] {
    let a: [F; D] = e.to_basefield_array();
    [a[0].to_canonical_u64(), a[1].to_canonical_u64()]
}
fn to_fe(e: [u64; 2]) -> FE {
    FE::from_basefield_array([fe(e[0]), fe(e[1])])
}
/// Reference evaluation of a base-field polynomial at an extension point (Horner, refmath).
fn ref_eval(coeffs: &[F], z: FE) -> FE {
    let zz = ext(z);
    let mut acc = [0u64, 0];
    for c in coeffs.iter().rev() {
        acc = rm::eadd(rm::emul(acc, zz), [c.to_canonical_u64(), 0]);
    }
    to_fe(acc)
}

fn viol(rep: &mut Report, case: &Case, what: &str, oracle: &str, detail: String) {
    let mut c = case.clone();
    c.only = Some(what.to_string());
    rep.violation("C05", oracle, &format!("C05|{oracle}|{}", what.split(':').next().unwrap_or(what)), detail, serde_json::to_value(&c).unwrap());
}

struct Session<C: GenericConfig<D, F = F>> {
    params: FriParams,
    instance: FriInstanceInfo<F, D>,
    caps: Vec<MerkleCap<F, C::Hasher>>,
    openings: FriOpenings<F, D>,
}

fn clone_openings(o: &FriOpenings<F, D>) -> FriOpenings<F, D> {
    FriOpenings { batches: o.batches.iter().map(|b| FriOpeningBatch { values: b.values.clone() }).collect() }
}

/// The verifier node: its own transcript, the real `verify_fri_proof`.
fn verifier_challenges<C: GenericConfig<D, F = F>>(s: &Session<C>, openings: &FriOpenings<F, D>, proof: &FriProof<F, C::Hasher, D>, params: &FriParams) -> Option<FriChallenges<F, D>> {
    guarded(|| {
        let mut ch = Challenger::<F, C::Hasher>::new();
        for c in &s.caps {
            ch.observe_cap::<C::Hasher>(c);
        }
        for _ in 0..s.instance.batches.len() {
            let _ = ch.get_extension_challenge::<D>();
        }
        ch.observe_openings(openings);
        ch.fri_challenges::<C, D>(&proof.commit_phase_merkle_caps, &proof.final_poly, proof.pow_witness, params.degree_bits, &params.config, None, None)
    })
    .ok()
}

fn accepts<C: GenericConfig<D, F = F>>(s: &Session<C>, openings: &FriOpenings<F, D>, ch: &FriChallenges<F, D>, proof: &FriProof<F, C::Hasher, D>, params: &FriParams) -> bool {
    matches!(guarded(|| verify_fri_proof::<F, C, D>(&s.instance, openings, ch, &s.caps, proof, params)), Ok(Ok(())))
}

fn clone_ch(c: &FriChallenges<F, D>) -> FriChallenges<F, D> {
    FriChallenges { fri_alpha: c.fri_alpha, fri_betas: c.fri_betas.clone(), fri_pow_response: c.fri_pow_response, fri_query_indices: c.fri_query_indices.clone() }
}

fn exec_c<C: GenericConfig<D, F = F>>(case: &Case, rep: &mut Report) {
    let params = match params_of(case) {
        Some(p) => p,
        None => {
            rep.skip("inadmissible FRI parameters (folds below degree 1 / below the cap)");
            return;
        }
    };
    let base_sig = hash_value(&json!([case.degree_bits, case.oracles, case.points, case.rate_bits, case.cap_height, case.pow_bits, case.strategy, case.num_queries, case.hiding, case.hash, case.coeff_seed]));
    let n = 1usize << case.degree_bits;
    let mut r = Rng::new(case.coeff_seed);
    let only = case.only.clone();
    let want = |name: &str| only.as_ref().map_or(true, |o| o.split(':').next() == Some(name));
    // arity-schedule invariants
    rep.case(base_sig ^ hash_str("arity_invariants"), true);
    if let Strat::ConstantArityBits(..) = case.strategy {
        let mut d = case.degree_bits;
        for a in &params.reduction_arity_bits {
            if d + case.rate_bits < case.cap_height + a || d < *a {
                viol(rep, case, "arity", "arity_schedule_folds_below_cap_height", format!("{:?}", params.reduction_arity_bits));
            }
            d -= a;
        }
    }
    if params.final_poly_len() != 1 << (case.degree_bits - params.total_arities()) {
        viol(rep, case, "arity", "final_poly_len_not_as_advertised", String::new());
    }

    // ---- prover node: commit
    let polys: Vec<Vec<PolynomialCoeffs<F>>> = case
        .oracles
        .iter()
        .map(|(np, _)| (0..*np).map(|_| PolynomialCoeffs::new((0..n).map(|_| F::from_canonical_u64(if r.chance(1, 8) { r.felt_biased() } else { r.felt() })).collect())).collect())
        .collect();
    arm(&case.sched, &case.entropy);
    let mut timing = TimingTree::default();
    let batches: Vec<PolynomialBatch<F, C, D>> = match guarded(|| {
        polys.iter().zip(&case.oracles).map(|(p, (_, bl))| PolynomialBatch::<F, C, D>::from_coeffs(p.clone(), case.rate_bits, *bl && case.hiding, case.cap_height, &mut TimingTree::default(), None)).collect()
    }) {
        Ok(b) => b,
        Err(e) => return viol(rep, case, "honest", "commit_panicked", e),
    };
    let caps: Vec<MerkleCap<F, C::Hasher>> = batches.iter().map(|b| b.merkle_tree.cap.clone()).collect();
    let mut ch = Challenger::<F, C::Hasher>::new();
    for c in &caps {
        ch.observe_cap::<C::Hasher>(c);
    }
    let zs: Vec<FE> = (0..case.points.len()).map(|_| ch.get_extension_challenge::<D>()).collect();
    let instance = FriInstanceInfo {
        oracles: case.oracles.iter().map(|(np, bl)| FriOracleInfo { num_polys: *np, blinding: *bl }).collect(),
        batches: case.points.iter().zip(&zs).map(|(l, z)| FriBatchInfo { point: *z, polynomials: l.iter().map(|(o, j)| FriPolynomialInfo { oracle_index: *o, polynomial_index: *j }).collect() }).collect(),
    };
    // true evaluations by the reference evaluator
    let openings = FriOpenings { batches: case.points.iter().zip(&zs).map(|(l, z)| FriOpeningBatch { values: l.iter().map(|(o, j)| ref_eval(&polys[*o][*j].coeffs, *z)).collect() }).collect() };
    ch.observe_openings(&openings);
    let mut ch_honest = ch.clone();
    let refs: Vec<&PolynomialBatch<F, C, D>> = batches.iter().collect();
    let proof = match guarded(|| PolynomialBatch::<F, C, D>::prove_openings(&instance, &refs, &mut ch_honest, &params, None, None, &mut timing)) {
        Ok(p) => p,
        Err(e) => return viol(rep, case, "honest", "honest_fri_prover_panicked", e),
    };
    rep.absorb_seams();
    let s = Session::<C> { params: params.clone(), instance, caps, openings };
    let hc = match verifier_challenges(&s, &s.openings, &proof, &params) {
        Some(c) => c,
        None => return viol(rep, case, "honest", "verifier_challenges_panicked", String::new()),
    };
    rep.case(base_sig, true);
    rep.probe(&format!("c05.layers.{}", params.reduction_arity_bits.len().min(4)));
    if case.hiding {
        rep.probe("c05.hiding");
    }
    if (0..case.oracles.len()).any(|o| !case.points[0].iter().any(|(oo, _)| *oo == o)) {
        rep.probe("c05.oracle_not_opened_at_the_first_point");
    }
    if !accepts(&s, &s.openings, &hc, &proof, &params) {
        return viol(rep, case, "honest", "honest_opening_proof_rejected", format!("arities {:?}", params.reduction_arity_bits));
    }
    let mut fr = Rng::new(case.fault_seed);
    let min_zeros = |p: &FriParams| p.config.proof_of_work_bits + (64 - F::order().bits()) as u32;
    let pow_ok = |c: &FriChallenges<F, D>, p: &FriParams| c.fri_pow_response.to_canonical_u64().leading_zeros() >= min_zeros(p);
    let r3 = case.num_queries * params.lde_bits() >= 64;

    // ---- (a) wrong claimed opening: verifier given a lie, challenges re-derived and held fixed
    if want("wrong_opening") {
        for (bi, b) in s.openings.batches.iter().enumerate() {
            let vi = fr.usize(b.values.len());
            let mut lie = clone_openings(&s.openings);
            lie.batches[bi].values[vi] += FE::ONE;
            for fixed in [true, false] {
                rep.fault(if fixed { "wrong_opening.fixed_challenges" } else { "wrong_opening.rederived" });
                rep.case(base_sig ^ hash_str("wo") ^ (bi as u64) << 8 ^ fixed as u64, fixed || r3);
                let chs = if fixed { Some(clone_ch(&hc)) } else { verifier_challenges(&s, &lie, &proof, &params) };
                if let Some(chs) = chs {
                    if (fixed || r3) && accepts(&s, &lie, &chs, &proof, &params) {
                        viol(rep, case, "wrong_opening", "accepted_wrong_opening", format!("batch {bi} value {vi} fixed={fixed}"));
                    }
                }
            }
            // a prover that lies consistently (absorbs the false opening, then runs the protocol)
            let mut chp = Challenger::<F, C::Hasher>::new();
            for c in &s.caps {
                chp.observe_cap::<C::Hasher>(c);
            }
            for _ in 0..zs.len() {
                let _ = chp.get_extension_challenge::<D>();
            }
            chp.observe_openings(&lie);
            arm(&case.sched, &case.entropy);
            if let Ok(p2) = guarded(|| PolynomialBatch::<F, C, D>::prove_openings(&s.instance, &refs, &mut chp, &params, None, None, &mut TimingTree::default())) {
                rep.fault("wrong_opening.lying_prover");
                rep.case(base_sig ^ hash_str("wolp") ^ bi as u64, true);
                if let Some(c2) = verifier_challenges(&s, &lie, &p2, &params) {
                    if accepts(&s, &lie, &c2, &p2, &params) {
                        viol(rep, case, "wrong_opening", "accepted_wrong_opening", format!("lying prover, batch {bi} value {vi}"));
                    }
                }
            }
        }
    }

    // ---- (h) a Byzantine prover that commits, for a FALSE opening, to exactly the function the verifier will
    // reconstruct at the first layer (so every first-layer check passes), folds it honestly, and either lets the
    // library truncate the final polynomial or sends the whole last layer as "final polynomial"
    if want("quotient_function") && !case.hiding {
        use plonky2::field::polynomial::PolynomialValues;
        let bi = fr.usize(s.openings.batches.len());
        let vi = fr.usize(s.openings.batches[bi].values.len());
        let mut lie = clone_openings(&s.openings);
        lie.batches[bi].values[vi] += FE::ONE;
        for untruncated in [false, true] {
            let mut chp = Challenger::<F, C::Hasher>::new();
            for c in &s.caps {
                chp.observe_cap::<C::Hasher>(c);
            }
            for _ in 0..zs.len() {
                let _ = chp.get_extension_challenge::<D>();
            }
            chp.observe_openings(&lie);
            let p2 = guarded(|| {
                let alpha_v = chp.get_extension_challenge::<D>();
                let lde_bits = params.lde_bits();
                let big_n = 1usize << lde_bits;
                let w = F::primitive_root_of_unity(lde_bits);
                let reduced_openings: Vec<FE> = lie.batches.iter().map(|b| ReducingFactor::new(alpha_v).reduce(b.values.iter())).collect();
                let mut vals: Vec<FE> = Vec::with_capacity(big_n);
                let mut x = F::coset_shift();
                for _ in 0..big_n {
                    let xe = <FE as FieldExtension<D>>::from_basefield(x);
                    let mut alpha = ReducingFactor::new(alpha_v);
                    let mut sum = FE::ZERO;
                    for (b, ro) in s.instance.batches.iter().zip(&reduced_openings) {
                        let evals: Vec<FE> = b.polynomials.iter().map(|pi| <FE as FieldExtension<D>>::from_basefield(batches[pi.oracle_index].polynomials[pi.polynomial_index].eval(x))).collect();
                        let reduced = alpha.reduce(evals.iter());
                        sum = alpha.shift(sum);
                        sum += (reduced - *ro) / (xe - b.point);
                    }
                    vals.push(sum);
                    x *= w;
                }
                let values = PolynomialValues::new(vals);
                let coeffs = values.clone().coset_ifft(F::coset_shift().into());
                let mut pp = params.clone();
                if untruncated {
                    // "rate 1": the prover's truncation keeps the whole last layer
                    pp.degree_bits = lde_bits;
                    pp.config.rate_bits = 0;
                }
                let trees: Vec<_> = batches.iter().map(|b| &b.merkle_tree).collect();
                fri_proof::<F, C, D>(&trees, coeffs, values, &mut chp, &pp, None, None, &mut TimingTree::default())
            });
            if let Ok(p2) = p2 {
                let name = if untruncated { "quotient_function.whole_last_layer_as_final_poly" } else { "quotient_function.truncated_by_library" };
                rep.fault(name);
                rep.case(base_sig ^ hash_str(name), true);
                if let Some(c2) = verifier_challenges(&s, &lie, &p2, &params) {
                    if accepts(&s, &lie, &c2, &p2, &params) {
                        viol(rep, case, "quotient_function", "accepted_wrong_opening", format!("{name}: final_poly has {} coefficients, parameters announce {}", p2.final_poly.len(), params.final_poly_len()));
                    }
                }
            }
        }
    }

    // ---- (c) first layer committed to a different function
    if want("other_function") {
        let other: Vec<PolynomialCoeffs<F>> = (0..case.oracles[0].0).map(|_| PolynomialCoeffs::new((0..n).map(|_| F::from_canonical_u64(fr.felt())).collect())).collect();
        arm(&case.sched, &case.entropy);
        if let Ok(ob) = guarded(|| PolynomialBatch::<F, C, D>::from_coeffs(other, case.rate_bits, case.oracles[0].1 && case.hiding, case.cap_height, &mut TimingTree::default(), None)) {
            // the prover folds the polynomials it claims but opens leaves of another commitment
            let frank = PolynomialBatch::<F, C, D> { polynomials: batches[0].polynomials.clone(), merkle_tree: ob.merkle_tree.clone(), degree_log: batches[0].degree_log, rate_bits: batches[0].rate_bits, blinding: batches[0].blinding };
            let mut caps2 = s.caps.clone();
            caps2[0] = ob.merkle_tree.cap.clone();
            let mut refs2: Vec<&PolynomialBatch<F, C, D>> = batches.iter().collect();
            refs2[0] = &frank;
            let s2 = Session::<C> { params: params.clone(), instance: s.instance.clone(), caps: caps2, openings: clone_openings(&s.openings) };
            let mut chp = Challenger::<F, C::Hasher>::new();
            for c in &s2.caps {
                chp.observe_cap::<C::Hasher>(c);
            }
            let zs2: Vec<FE> = (0..zs.len()).map(|_| chp.get_extension_challenge::<D>()).collect();
            // statement: openings of the CLAIMED polynomials at the new points
            let inst2 = FriInstanceInfo { oracles: s.instance.oracles.clone(), batches: case.points.iter().zip(&zs2).map(|(l, z)| FriBatchInfo { point: *z, polynomials: l.iter().map(|(o, j)| FriPolynomialInfo { oracle_index: *o, polynomial_index: *j }).collect() }).collect() };
            let op2 = FriOpenings { batches: case.points.iter().zip(&zs2).map(|(l, z)| FriOpeningBatch { values: l.iter().map(|(o, j)| ref_eval(&polys[*o][*j].coeffs, *z)).collect() }).collect() };
            chp.observe_openings(&op2);
            let s2 = Session::<C> { instance: inst2, openings: op2, ..s2 };
            if let Ok(p2) = guarded(|| PolynomialBatch::<F, C, D>::prove_openings(&s2.instance, &refs2, &mut chp, &params, None, None, &mut TimingTree::default())) {
                rep.fault("first_layer_other_function");
                rep.case(base_sig ^ hash_str("other_fn"), true);
                if let Some(c2) = verifier_challenges(&s2, &s2.openings, &p2, &params) {
                    if accepts(&s2, &s2.openings, &c2, &p2, &params) {
                        viol(rep, case, "other_function", "accepted_commitment_to_other_function", String::new());
                    }
                }
            }
        }
    }

    // ---- (d) a function of too high degree, folded honestly
    if want("high_degree") && case.rate_bits >= 1 && !case.hiding {
        let big: Vec<Vec<PolynomialCoeffs<F>>> = case.oracles.iter().map(|(np, _)| (0..*np).map(|_| PolynomialCoeffs::new((0..2 * n).map(|_| F::from_canonical_u64(fr.felt())).collect())).collect()).collect();
        arm(&case.sched, &case.entropy);
        let hb: Result<Vec<PolynomialBatch<F, C, D>>, String> = guarded(|| big.iter().map(|p| PolynomialBatch::<F, C, D>::from_coeffs(p.clone(), case.rate_bits - 1, false, case.cap_height, &mut TimingTree::default(), None)).collect());
        if let Ok(hb) = hb {
            let caps2: Vec<MerkleCap<F, C::Hasher>> = hb.iter().map(|b| b.merkle_tree.cap.clone()).collect();
            let mut chp = Challenger::<F, C::Hasher>::new();
            for c in &caps2 {
                chp.observe_cap::<C::Hasher>(c);
            }
            let zs2: Vec<FE> = (0..zs.len()).map(|_| chp.get_extension_challenge::<D>()).collect();
            let inst2 = FriInstanceInfo { oracles: s.instance.oracles.clone(), batches: case.points.iter().zip(&zs2).map(|(l, z)| FriBatchInfo { point: *z, polynomials: l.iter().map(|(o, j)| FriPolynomialInfo { oracle_index: *o, polynomial_index: *j }).collect() }).collect() };
            let op2 = FriOpenings { batches: case.points.iter().zip(&zs2).map(|(l, z)| FriOpeningBatch { values: l.iter().map(|(o, j)| ref_eval(&big[*o][*j].coeffs, *z)).collect() }).collect() };
            chp.observe_openings(&op2);
            let s2 = Session::<C> { params: params.clone(), instance: inst2, caps: caps2, openings: op2 };
            // the honest prover's algorithm on the over-long polynomials, on the domain the parameters announce
            let p2 = guarded(|| {
                let alpha = chp.get_extension_challenge::<D>();
                let mut alpha = ReducingFactor::new(alpha);
                let mut final_poly = PolynomialCoeffs::<FE>::empty();
                for FriBatchInfo { point, polynomials } in &s2.instance.batches {
                    let pc = polynomials.iter().map(|fp| &hb[fp.oracle_index].polynomials[fp.polynomial_index]);
                    let comp = alpha.reduce_polys_base::<F, D>(pc);
                    let mut q = comp.divide_by_linear(*point);
                    q.coeffs.push(FE::ZERO);
                    alpha.shift_poly(&mut final_poly);
                    final_poly += q;
                }
                let lde = final_poly.lde(case.rate_bits - 1);
                let vals = lde.coset_fft(F::coset_shift().into());
                let trees: Vec<_> = hb.iter().map(|b| &b.merkle_tree).collect();
                fri_proof::<F, C, D>(&trees, lde, vals, &mut chp, &params, None, None, &mut TimingTree::default())
            });
            if let Ok(p2) = p2 {
                rep.fault("high_degree_function_folded_honestly");
                rep.case(base_sig ^ hash_str("high_degree"), true);
                if let Some(c2) = verifier_challenges(&s2, &s2.openings, &p2, &params) {
                    if accepts(&s2, &s2.openings, &c2, &p2, &params) {
                        viol(rep, case, "high_degree", "accepted_function_of_too_high_degree", String::new());
                    }
                }
            }
        }
    }

    // ---- (e) insufficient grinding: prover configured without proof of work, verifier demands it
    if want("grinding") {
        let mut weak = params.clone();
        weak.config.proof_of_work_bits = 0;
        let mut strict = params.clone();
        strict.config.proof_of_work_bits = *fr.pick(&[8u32, 12, 16]);
        let mut chp = ch.clone();
        arm(&case.sched, &case.entropy);
        if let Ok(p2) = guarded(|| PolynomialBatch::<F, C, D>::prove_openings(&s.instance, &refs, &mut chp, &weak, None, None, &mut TimingTree::default())) {
            if let Some(c2) = verifier_challenges(&s, &s.openings, &p2, &strict) {
                let legit = pow_ok(&c2, &strict);
                rep.fault("insufficient_grinding");
                rep.case(base_sig ^ hash_str("grinding"), !legit);
                if !legit && accepts(&s, &s.openings, &c2, &p2, &strict) {
                    viol(rep, case, "grinding", "accepted_insufficient_proof_of_work", format!("response {}", c2.fri_pow_response));
                }
            }
        }
    }

    // ---- (e') the proof-of-work threshold itself, under fixed challenges: a response one bit short of the
    // demanded leading zeros is rejected, a response with exactly that many is accepted
    if want("grinding") {
        for b in [1u32, 7, 16, 33] {
            let mut strict = params.clone();
            strict.config.proof_of_work_bits = b;
            let mz = min_zeros(&strict);
            if mz == 0 || mz >= 64 {
                continue;
            }
            let mut short = clone_ch(&hc);
            short.fri_pow_response = F::from_canonical_u64(1u64 << (64 - mz));
            let mut exact = clone_ch(&hc);
            exact.fri_pow_response = F::from_canonical_u64((1u64 << (64 - mz)) - 1);
            rep.fault("pow_response_one_bit_short");
            rep.case(base_sig ^ hash_str("pow_short") ^ b as u64, true);
            if accepts(&s, &s.openings, &short, &proof, &strict) {
                viol(rep, case, "grinding", "accepted_insufficient_proof_of_work", format!("{b} bits demanded, response {} has {} leading zeros", short.fri_pow_response, mz - 1));
            }
            rep.case(base_sig ^ hash_str("pow_exact") ^ b as u64, true);
            if !accepts(&s, &s.openings, &exact, &proof, &strict) {
                viol(rep, case, "grinding", "rejected_sufficient_proof_of_work", format!("{b} bits demanded, response {} has exactly {} leading zeros", exact.fri_pow_response, mz));
            }
        }
    }

    // ---- (f) per-element edits of the proof under FIXED challenges, and with re-derived ones
    if want("element") {
        let tree = serde_json::to_value(&proof).unwrap();
        let sh = shape(&tree);
        let leaves: Vec<Path> = sh.leaves.clone();
        let picks: Vec<Path> = match only.as_ref().and_then(|o| o.strip_prefix("element:")) {
            Some(p) => leaves.iter().filter(|l| path_str(l) == p).cloned().collect(),
            None => stratified(&leaves, &mut fr, 1),
        };
        for path in picks {
            let comp = component(&path);
            let f = Fault::Elem { path: path.clone(), kind: "plus1".into(), seed: 0 };
            let mut t = tree.clone();
            if !apply(&mut t, &f) {
                continue;
            }
            let p2: FriProof<F, C::Hasher, D> = match serde_json::from_value(t) {
                Ok(p) => p,
                Err(_) => continue,
            };
            let is_cap = comp.starts_with("commit_phase_merkle_caps");
            let is_pow = comp.starts_with("pow_witness");
            // fixed challenges: every check is deterministic, except a cap entry no query lands on and the nonce
            if !is_cap && !is_pow {
                rep.fault("element.fixed_challenges");
                rep.case(base_sig ^ hash_str(&path_str(&path)), true);
                if accepts(&s, &s.openings, &hc, &p2, &params) {
                    viol(rep, case, &format!("element:{}", path_str(&path)), "accepted_edited_element_under_fixed_challenges", comp.clone());
                }
            }
            if r3 {
                if let Some(c2) = verifier_challenges(&s, &s.openings, &p2, &params) {
                    let legit_nonce = is_pow && pow_ok(&c2, &params) && c2.fri_query_indices == hc.fri_query_indices;
                    rep.fault("element.rederived_challenges");
                    rep.case(base_sig ^ hash_str(&path_str(&path)) ^ 1, !legit_nonce);
                    if !legit_nonce && accepts(&s, &s.openings, &c2, &p2, &params) {
                        viol(rep, case, &format!("element:{}", path_str(&path)), "accepted_edited_element", comp.clone());
                    }
                }
            }
        }
        // all entries of one commit-phase cap altered: every query path ends in an altered entry
        for ci in 0..proof.commit_phase_merkle_caps.len() {
            let mut p2 = proof.clone();
            let alt: Vec<_> = p2.commit_phase_merkle_caps[ci].0.iter().map(|h| <C::Hasher as plonky2::plonk::config::Hasher<F>>::two_to_one(*h, *h)).collect();
            p2.commit_phase_merkle_caps[ci].0 = alt;
            rep.fault("commit_cap_all_entries.fixed_challenges");
            rep.case(base_sig ^ hash_str("capall") ^ ci as u64, true);
            if accepts(&s, &s.openings, &hc, &p2, &params) {
                viol(rep, case, "element:cap", "accepted_altered_commit_phase_cap_under_fixed_challenges", format!("cap {ci}"));
            }
        }
    }

    // ---- (g) batched variant over polynomials of different degrees
    if want("batch") && !case.batch_degrees.is_empty() && !case.hiding {
        exec_batch::<C>(case, rep, &params, base_sig, &mut fr);
    }
    rep.sample(json!({"degree_bits": case.degree_bits, "oracles": case.oracles, "points": case.points.len(), "arities": params.reduction_arity_bits, "queries": case.num_queries,
        "rate_bits": case.rate_bits, "cap_height": case.cap_height, "pow_bits": case.pow_bits, "hash": case.hash, "hiding": case.hiding, "batch_degrees": case.batch_degrees}));
}

fn exec_batch<C: GenericConfig<D, F = F>>(case: &Case, rep: &mut Report, params: &FriParams, base_sig: u64, fr: &mut Rng) {
    let mut degs = vec![case.degree_bits];
    degs.extend(case.batch_degrees.iter().copied());
    // each group has one or two polynomials
    let mut polys: Vec<PolynomialCoeffs<F>> = Vec::new();
    let mut groups: Vec<Vec<usize>> = Vec::new();
    for &d in &degs {
        let k = fr.range(1, 2);
        let mut g = Vec::new();
        for _ in 0..k {
            g.push(polys.len());
            polys.push(PolynomialCoeffs::new((0..1usize << d).map(|_| F::from_canonical_u64(fr.felt())).collect()));
        }
        groups.push(g);
    }
    let np = polys.len();
    arm(&case.sched, &case.entropy);
    let oracle = match guarded(|| BatchFriOracle::<F, C, D>::from_coeffs(polys.clone(), case.rate_bits, false, case.cap_height, &mut TimingTree::default(), &vec![None; np])) {
        Ok(o) => o,
        Err(e) => {
            rep.skip(&format!("batch commit rejected the shape: {}", e.chars().take(50).collect::<String>()));
            return;
        }
    };
    let cap = oracle.batch_merkle_tree.cap.clone();
    let mut ch = Challenger::<F, C::Hasher>::new();
    ch.observe_cap::<C::Hasher>(&cap);
    let zeta = ch.get_extension_challenge::<D>();
    let instances: Vec<FriInstanceInfo<F, D>> = groups
        .iter()
        .map(|g| FriInstanceInfo {
            oracles: vec![FriOracleInfo { num_polys: g.len(), blinding: false }],
            batches: vec![FriBatchInfo { point: zeta, polynomials: g.iter().map(|&i| FriPolynomialInfo { oracle_index: 0, polynomial_index: i }).collect() }],
        })
        .collect();
    let openings: Vec<FriOpenings<F, D>> = groups.iter().map(|g| FriOpenings { batches: vec![FriOpeningBatch { values: g.iter().map(|&i| ref_eval(&polys[i].coeffs, zeta)).collect() }] }).collect();
    for o in &openings {
        ch.observe_openings(o);
    }
    let mut chp = ch.clone();
    let proof = match guarded(|| BatchFriOracle::<F, C, D>::prove_openings(&degs, &instances, &[&oracle], &mut chp, params, &mut TimingTree::default())) {
        Ok(p) => p,
        Err(e) => {
            rep.skip(&format!("batch prover rejected the shape: {}", e.chars().take(50).collect::<String>()));
            return;
        }
    };
    let vch = |ops: &Vec<FriOpenings<F, D>>, p: &FriProof<F, C::Hasher, D>| {
        guarded(|| {
            let mut c = Challenger::<F, C::Hasher>::new();
            c.observe_cap::<C::Hasher>(&cap);
            let _ = c.get_extension_challenge::<D>();
            for o in ops {
                c.observe_openings(o);
            }
            c.fri_challenges::<C, D>(&p.commit_phase_merkle_caps, &p.final_poly, p.pow_witness, degs[0], &params.config, None, None)
        })
        .ok()
    };
    let acc = |ops: &Vec<FriOpenings<F, D>>, c: &FriChallenges<F, D>, p: &FriProof<F, C::Hasher, D>| matches!(guarded(|| verify_batch_fri_proof::<F, C, D>(&degs, &instances, ops, c, &[cap.clone()], p, params)), Ok(Ok(())));
    let hc = match vch(&openings, &proof) {
        Some(c) => c,
        None => return,
    };
    rep.probe("c05.batch_variant");
    rep.case(base_sig ^ hash_str("batch_honest"), true);
    if !acc(&openings, &hc, &proof) {
        // the batched prover requires arities that divide the degree gaps; shapes it cannot serve are skipped
        rep.probe("c05.batch_honest_rejected");
        if case.batch_degrees.iter().all(|d| {
            let mut cur = case.degree_bits;
            let mut ok = *d == cur;
            for a in &params.reduction_arity_bits {
                cur -= a;
                if cur == *d {
                    ok = true;
                }
            }
            ok
        }) {
            viol(rep, case, "batch", "honest_batch_opening_proof_rejected", format!("degrees {:?} arities {:?}", degs, params.reduction_arity_bits));
        }
        return;
    }
    // wrong opening in each group, fixed challenges
    for gi in 0..openings.len() {
        let mut lie: Vec<FriOpenings<F, D>> = openings.iter().map(clone_openings).collect();
        lie[gi].batches[0].values[0] += FE::ONE;
        rep.fault("batch.wrong_opening.fixed_challenges");
        rep.case(base_sig ^ hash_str("batch_wo") ^ gi as u64, true);
        if acc(&lie, &hc, &proof) {
            viol(rep, case, "batch", "batch_accepted_wrong_opening", format!("group {gi}"));
        }
    }
    let tree = serde_json::to_value(&proof).unwrap();
    let sh = shape(&tree);
    for path in stratified(&sh.leaves, fr, 0) {
        let comp = component(&path);
        if comp.starts_with("commit_phase_merkle_caps") || comp.starts_with("pow_witness") {
            continue;
        }
        let mut t = tree.clone();
        if !apply(&mut t, &Fault::Elem { path: path.clone(), kind: "plus1".into(), seed: 0 }) {
            continue;
        }
        if let Ok(p2) = serde_json::from_value::<FriProof<F, C::Hasher, D>>(t) {
            rep.fault("batch.element.fixed_challenges");
            rep.case(base_sig ^ hash_str("batch_el") ^ hash_str(&path_str(&path)), true);
            if acc(&openings, &hc, &p2) {
                viol(rep, case, "batch", "batch_accepted_edited_element_under_fixed_challenges", comp);
            }
        }
    }
}

pub fn exec(case: &Value, rep: &mut Report) {
    let case: Case = serde_json::from_value(case.clone()).expect("malformed C05 case");
    if case.hash == "keccak" {
        exec_c::<KC>(&case, rep)
    } else {
        exec_c::<PC>(&case, rep)
    }
}

pub fn shrink(case: &Value) -> Vec<Value> {
    let c: Case = serde_json::from_value(case.clone()).unwrap();
    let mut out = Vec::new();
    let positional = c.only.as_ref().map_or(false, |o| o.starts_with("element:"));
    if c.sched.workers > 1 {
        let mut d = c.clone();
        d.sched = Sched::sequential();
        out.push(d);
    }
    if !positional {
        if c.degree_bits > 2 && c.batch_degrees.is_empty() {
            let mut d = c.clone();
            d.degree_bits -= 1;
            d.cap_height = d.cap_height.min(d.degree_bits);
            d.strategy = Strat::ConstantArityBits(1, 0);
            out.push(d);
        }
        if c.oracles.len() > 1 {
            let mut d = c.clone();
            d.oracles.pop();
            let k = d.oracles.len();
            for p in d.points.iter_mut() {
                p.retain(|(o, _)| *o < k);
                if p.is_empty() {
                    p.push((0, 0));
                }
            }
            out.push(d);
        }
        if c.points.len() > 1 {
            let mut d = c.clone();
            d.points.pop();
            out.push(d);
        }
        if c.hiding {
            let mut d = c.clone();
            d.hiding = false;
            out.push(d);
        }
        if c.hash == "keccak" {
            let mut d = c.clone();
            d.hash = "poseidon".into();
            out.push(d);
        }
        if c.cap_height > 0 {
            let mut d = c.clone();
            d.cap_height = 0;
            out.push(d);
        }
        if !c.batch_degrees.is_empty() && c.only.as_deref() != Some("batch") {
            let mut d = c.clone();
            d.batch_degrees.clear();
            out.push(d);
        }
    }
    out.into_iter().map(|d| serde_json::to_value(d).unwrap()).collect()
}
