//! C18 — verifiers and proof decoders fail cleanly on malformed input: the hostile channel.
//! Byte level: truncation, bit flips, 8-byte word edits (length fields), random bytes, splices into
//! the proof decoders; struct level: list / map / element faults (also nested) into verify,
//! verify_compressed and decompress. Oracle: the call returns (no panic, no abort, no allocation
//! request above the cap) and never reports success for anything but the honest proof.
use plonky2::plonk::config::GenericConfig;
use plonky2::plonk::proof::{CompressedProofWithPublicInputs, ProofWithPublicInputs};
use serde::{Deserialize, Serialize};
use serde_json::{json, Value};

use crate::c01::prog_shape;
use crate::c03::plan;
use crate::core::*;
use crate::mutate::*;
use crate::pipeline::*;
use crate::prog::*;
use crate::with_config;

pub const ALLOC_CAP: usize = 1 << 30;

#[derive(Clone, Debug, PartialEq, Serialize, Deserialize)]
pub enum ByteFault {
    Truncate(usize),
    Flip(usize, u8),
    /// overwrite the 8 bytes at the offset with a little-endian value
    Word(usize, u64),
    Random(usize, u64),
    /// first `k` bytes of this encoding followed by the other proof's bytes from `k`
    Splice(usize),
}

#[derive(Clone, Debug, Serialize, Deserialize)]
pub struct Case {
    pub st: Statement,
    pub sched: Sched,
    pub entropy: Entropy,
    pub fault_seed: u64,
    pub dense: bool,
    /// replay: ("plain_bytes"|"compressed_bytes", ByteFault) or ("plain"|"compressed", Fault)
    #[serde(default)]
    pub only_bytes: Option<(String, ByteFault)>,
    #[serde(default)]
    pub only_struct: Option<(String, Fault)>,
}

pub fn gen(rng: &mut Rng, tier: Tier) -> Value {
    let mut st = draw_statement(rng, 12, true, false);
    // small proofs: the channel, not the circuit, is under test
    st.cfg.num_query_rounds = st.cfg.num_query_rounds.min(13).max(if st.cfg.zero_knowledge { 8 } else { 13 });
    st.cfg.security_bits = st.cfg.security_bits.min(st.cfg.num_query_rounds * st.cfg.rate_bits);
    let mut rs = rng.sub("schedule");
    let mut re = rng.sub("entropy");
    let mut rf = rng.sub("faults");
    if rf.chance(1, 2) {
        // no grinding: malformed values get past the proof-of-work check into the query phase
        st.cfg.pow_bits = 0;
        st.cfg.security_bits = st.cfg.security_bits.min(st.cfg.num_query_rounds * st.cfg.rate_bits);
    }
    serde_json::to_value(Case {
        st,
        sched: Sched::draw(&mut rs),
        entropy: Entropy::draw(&mut re),
        fault_seed: rf.u64(),
        dense: tier == Tier::Thorough && rf.chance(1, 10),
        only_bytes: None,
        only_struct: None,
    })
    .unwrap()
}

fn apply_bytes(b: &[u8], other: &[u8], f: &ByteFault) -> Vec<u8> {
    let mut v = b.to_vec();
    match f {
        ByteFault::Truncate(k) => v.truncate(*k),
        ByteFault::Flip(o, bit) => {
            if *o < v.len() {
                v[*o] ^= 1 << (bit % 8)
            }
        }
        ByteFault::Word(o, x) => {
            if *o + 8 <= v.len() {
                v[*o..*o + 8].copy_from_slice(&x.to_le_bytes())
            }
        }
        ByteFault::Random(n, seed) => {
            let mut r = Rng::new(*seed);
            v = (0..*n).map(|_| r.u64() as u8).collect();
        }
        ByteFault::Splice(k) => {
            v.truncate(*k);
            if *k < other.len() {
                v.extend_from_slice(&other[*k..]);
            }
        }
    }
    v
}

fn byte_plan(len: usize, r: &mut Rng, dense: bool) -> Vec<ByteFault> {
    let mut out = Vec::new();
    let words = [0u64, 1, 2, 1 << 16, 1 << 32, (1 << 32) + 1, 1 << 48, 1 << 63, u64::MAX, u64::MAX - 1, 0xFFFF_FFFF_0000_0001];
    if dense {
        for k in 0..len {
            out.push(ByteFault::Truncate(k));
        }
        for o in (0..len.saturating_sub(7)).step_by(8) {
            for w in words {
                out.push(ByteFault::Word(o, w));
            }
        }
        for o in 0..len {
            out.push(ByteFault::Flip(o, r.below(8) as u8));
        }
    } else {
        for k in [0usize, 1, 7, 8, 9, len / 2, len.saturating_sub(9), len.saturating_sub(8), len.saturating_sub(1)] {
            if k < len {
                out.push(ByteFault::Truncate(k));
            }
        }
        for _ in 0..40 {
            out.push(ByteFault::Truncate(r.usize(len.max(1))));
            out.push(ByteFault::Flip(r.usize(len.max(1)), r.below(8) as u8));
        }
        // word edits: the tail (public-input length / compressed maps) and random aligned offsets
        for _ in 0..60 {
            let o = if r.chance(1, 3) { len.saturating_sub(8 * (1 + r.usize(40))) } else { r.usize(len.max(8) / 8) * 8 };
            out.push(ByteFault::Word(o.min(len.saturating_sub(8)), *r.pick(&words)));
        }
    }
    for n in [0usize, 1, 8, 64, 1000, len] {
        out.push(ByteFault::Random(n, r.u64()));
    }
    for _ in 0..4 {
        out.push(ByteFault::Splice(r.usize(len.max(1))));
    }
    out
}

fn bkind(f: &ByteFault) -> &'static str {
    match f {
        ByteFault::Truncate(_) => "truncate",
        ByteFault::Flip(..) => "flip",
        ByteFault::Word(..) => "word",
        ByteFault::Random(..) => "random_bytes",
        ByteFault::Splice(_) => "splice",
    }
}

/// Classify a panic message into a stable site label (line numbers and values stripped).
fn site(msg: &str) -> String {
    let m: String = msg.chars().map(|c| if c.is_ascii_digit() { '#' } else { c }).collect();
    let m = m.replace("##", "#").replace("##", "#").replace("##", "#");
    m.chars().take(60).collect()
}

struct Ctx<'a> {
    rep: &'a mut Report,
    case: &'a Case,
}

impl<'a> Ctx<'a> {
    fn viol_b(&mut self, entry: &str, f: &ByteFault, oracle: &str, what: &str, detail: String) {
        let mut c = self.case.clone();
        c.only_bytes = Some((entry.to_string(), f.clone()));
        self.rep.violation("C18", oracle, &format!("C18|{oracle}|{entry}|{what}"), detail, serde_json::to_value(&c).unwrap());
    }
    fn viol_s(&mut self, entry: &str, f: &Fault, oracle: &str, what: &str, detail: String) {
        let mut c = self.case.clone();
        c.only_struct = Some((entry.to_string(), f.clone()));
        self.rep.violation("C18", oracle, &format!("C18|{oracle}|{entry}|{what}"), detail, serde_json::to_value(&c).unwrap());
    }
}

/// Run `f` and report (result, largest single allocation request during the call).
fn watched<T>(f: impl FnOnce() -> T) -> (Result<T, String>, usize) {
    crate::alloc_watch::reset();
    let r = guarded(f);
    (r, crate::alloc_watch::max_request())
}

fn exec_c<C: GenericConfig<D, F = F>>(case: &Case, rep: &mut Report) {
    let (built, proof) = match honest_accepted::<C>(&case.st, &case.sched, &case.entropy, rep) {
        Some(x) => x,
        None => return,
    };
    let data = &built.data;
    let common = &data.common;
    let base_sig = prog_shape(&case.st.prog) ^ hash_str(&built.cfg.class()) ^ hash_value(&json!(case.st.prog.inputs));
    let mut r = Rng::new(case.fault_seed);
    let cp = match guarded(|| data.compress(proof.clone())) {
        Ok(Ok(c)) => Some(c),
        _ => None,
    };
    // a second honest proof (other entropy) for splices
    arm(&case.sched, &Entropy { seed: case.entropy.seed ^ 0xabcdef, mode: "stream".into() });
    let other = built.prove(built.honest_witness(&case.st)).ok();
    let mut cx = Ctx { rep, case };
    let replaying = case.only_bytes.is_some() || case.only_struct.is_some();

    // ---------------- byte level: decoders
    let pb = proof.to_bytes();
    let ob = other.as_ref().map(|p| p.to_bytes()).unwrap_or_default();
    let plan_b: Vec<ByteFault> = match &case.only_bytes {
        Some((e, f)) if e == "plain_bytes" => vec![f.clone()],
        _ if replaying => vec![],
        _ => byte_plan(pb.len(), &mut r, case.dense),
    };
    for f in &plan_b {
        let bytes = apply_bytes(&pb, &ob, f);
        let nontrivial = bytes != pb;
        let sig = base_sig ^ hash_value(&serde_json::to_value(f).unwrap());
        cx.rep.fault(&format!("bytes.{}", bkind(f)));
        cx.rep.case(sig, nontrivial);
        let (res, maxreq) = watched(|| ProofWithPublicInputs::<F, C, D>::from_bytes(bytes.clone(), common));
        if maxreq > ALLOC_CAP {
            cx.viol_b("plain_bytes", f, "huge_allocation_request", "from_bytes", format!("{maxreq} bytes requested"));
        }
        match res {
            Err(e) => cx.viol_b("plain_bytes", f, "decoder_panicked", &site(&e), e),
            Ok(Err(_)) => {}
            Ok(Ok(p2)) => {
                cx.rep.probe("c18.mutated_bytes_decoded");
                let (v, maxreq) = watched(|| data.verify(p2.clone()));
                if maxreq > ALLOC_CAP {
                    cx.viol_b("plain_bytes", f, "huge_allocation_request", "verify", format!("{maxreq} bytes requested"));
                }
                match v {
                    Err(e) => cx.viol_b("plain_bytes", f, "verify_panicked_on_decoded_input", &site(&e), e),
                    Ok(Ok(())) => {
                        if p2 != proof && Some(&p2) != other.as_ref() {
                            cx.viol_b("plain_bytes", f, "accepted_mutated_bytes", "verify", String::new());
                        }
                    }
                    Ok(Err(_)) => {}
                }
            }
        }
    }
    if let Some(cp) = &cp {
        let cb = cp.to_bytes();
        let ocb = other.as_ref().and_then(|p| guarded(|| data.compress(p.clone())).ok().and_then(|r| r.ok())).map(|c| c.to_bytes()).unwrap_or_default();
        let plan_c: Vec<ByteFault> = match &case.only_bytes {
            Some((e, f)) if e == "compressed_bytes" => vec![f.clone()],
            _ if replaying => vec![],
            _ => byte_plan(cb.len(), &mut r, case.dense),
        };
        for f in &plan_c {
            let bytes = apply_bytes(&cb, &ocb, f);
            let sig = base_sig ^ hash_str("c") ^ hash_value(&serde_json::to_value(f).unwrap());
            cx.rep.fault(&format!("compressed_bytes.{}", bkind(f)));
            cx.rep.case(sig, bytes != cb);
            let (res, maxreq) = watched(|| CompressedProofWithPublicInputs::<F, C, D>::from_bytes(bytes.clone(), common));
            if maxreq > ALLOC_CAP {
                cx.viol_b("compressed_bytes", f, "huge_allocation_request", "from_bytes", format!("{maxreq} bytes requested"));
            }
            match res {
                Err(e) => cx.viol_b("compressed_bytes", f, "decoder_panicked", &site(&e), e),
                Ok(Err(_)) => {}
                Ok(Ok(c2)) => {
                    cx.rep.probe("c18.mutated_compressed_bytes_decoded");
                    let (v, maxreq) = watched(|| data.verify_compressed(c2.clone()));
                    if maxreq > ALLOC_CAP {
                        cx.viol_b("compressed_bytes", f, "huge_allocation_request", "verify_compressed", format!("{maxreq} bytes requested"));
                    }
                    match v {
                        Err(e) => cx.viol_b("compressed_bytes", f, "verify_compressed_panicked_on_decoded_input", &site(&e), e),
                        Ok(Ok(())) => {
                            if &c2 != cp {
                                let ok_other = guarded(|| data.decompress(c2.clone())).ok().and_then(|r| r.ok()).map_or(false, |p| Some(&p) == other.as_ref() || p == proof);
                                if !ok_other {
                                    cx.viol_b("compressed_bytes", f, "accepted_mutated_bytes", "verify_compressed", String::new());
                                }
                            }
                        }
                        Ok(Err(_)) => {}
                    }
                }
            }
        }
    }

    // ---------------- struct level: verify / verify_compressed / decompress on arbitrary values
    let tree = serde_json::to_value(&proof).unwrap();
    let plan_s: Vec<Fault> = match &case.only_struct {
        Some((e, f)) if e == "plain" => vec![f.clone()],
        _ if replaying => vec![],
        _ => plan(&tree, &mut r, case.dense, false).into_iter().filter(|f| !matches!(f, Fault::Elem { .. }) || r.chance(1, 4)).collect(),
    };
    for f in &plan_s {
        let mut t = tree.clone();
        if !apply(&mut t, f) {
            continue;
        }
        let p2: ProofWithPublicInputs<F, C, D> = match serde_json::from_value(t) {
            Ok(p) => p,
            Err(_) => continue,
        };
        cx.rep.fault(&format!("struct.{}", f.kind()));
        cx.rep.case(base_sig ^ hash_str("s") ^ hash_value(&serde_json::to_value(f).unwrap()), p2 != proof);
        let (v, maxreq) = watched(|| data.verify(p2.clone()));
        if maxreq > ALLOC_CAP {
            cx.viol_s("plain", f, "huge_allocation_request", "verify", format!("{maxreq} bytes requested"));
        }
        if let Err(e) = v {
            cx.viol_s("plain", f, "verify_panicked", &site(&e), e);
        }
        // the encoder side of a malformed value must not panic either (it is handed to peers)
    }
    if let Some(cp) = &cp {
        let tree = serde_json::to_value(cp).unwrap();
        let sh = shape(&tree);
        let mut plan_c: Vec<Fault> = match &case.only_struct {
            Some((e, f)) if e == "compressed" => vec![f.clone()],
            _ if replaying => vec![],
            _ => plan(&tree, &mut r, case.dense, false).into_iter().filter(|f| !matches!(f, Fault::Elem { .. }) || r.chance(1, 4)).collect(),
        };
        if !replaying {
            for m in &sh.maps {
                for k in ["remove_key", "add_key", "rekey"] {
                    plan_c.push(Fault::Map { path: m.clone(), kind: k.to_string(), seed: r.u64() });
                }
            }
            // query positions out of range / repeated / unsorted
            let ip: Path = vec![Seg::K("proof".into()), Seg::K("opening_proof".into()), Seg::K("query_round_proofs".into()), Seg::K("indices".into())];
            if let Some(Value::Array(a)) = get(&tree, &ip) {
                if !a.is_empty() {
                    let mut q = ip.clone();
                    q.push(Seg::I(0));
                    for v in [json!(u64::MAX >> 1), json!(1u64 << 40), json!(common.fri_params.lde_size())] {
                        plan_c.push(Fault::Set { path: q.clone(), value: v });
                    }
                }
            }
        }
        for f in &plan_c {
            let mut t = tree.clone();
            if !apply(&mut t, f) {
                continue;
            }
            let c2: CompressedProofWithPublicInputs<F, C, D> = match serde_json::from_value(t) {
                Ok(p) => p,
                Err(_) => continue,
            };
            cx.rep.fault(&format!("compressed_struct.{}", f.kind()));
            cx.rep.case(base_sig ^ hash_str("cs") ^ hash_value(&serde_json::to_value(f).unwrap()), &c2 != cp);
            for (entry, res) in [
                ("verify_compressed", watched(|| data.verify_compressed(c2.clone()).map(|_| ()))),
                ("decompress", watched(|| data.decompress(c2.clone()).map(|_| ()))),
            ] {
                if res.1 > ALLOC_CAP {
                    cx.viol_s("compressed", f, "huge_allocation_request", entry, format!("{} bytes requested", res.1));
                }
                if let Err(e) = res.0 {
                    cx.viol_s("compressed", f, &format!("{entry}_panicked"), &site(&e), e);
                }
            }
        }
    }
    // ---------------- STARK entry point: verify_stark_proof on arbitrary proof values
    if !replaying || case.only_struct.as_ref().map_or(false, |(e, _)| e == "stark") {
        stark_section(case, &mut cx, &mut r);
    }
    cx.rep.sample(json!({"config": built.cfg.class(), "proof_bytes": pb.len(), "byte_faults": plan_b.len(), "struct_faults": plan_s.len(), "dense": case.dense}));
}

pub fn exec(case: &Value, rep: &mut Report) {
    let case: Case = serde_json::from_value(case.clone()).expect("malformed C18 case");
    with_config!(case.st.cfg.hash, exec_c, &case, rep)
}

pub fn shrink(case: &Value) -> Vec<Value> {
    let c: Case = serde_json::from_value(case.clone()).unwrap();
    let mut out = Vec::new();
    if c.sched.workers > 1 {
        let mut d = c.clone();
        d.sched = Sched::sequential();
        out.push(d);
    }
    // struct faults keep their meaning when the statement shrinks; byte offsets do not
    if c.only_struct.is_some() {
        for st in shrink_statement(&c.st) {
            if st.cfg.num_query_rounds < 8 {
                continue;
            }
            let mut d = c.clone();
            d.st = st;
            out.push(d);
        }
    }
    out.into_iter().map(|d| serde_json::to_value(d).unwrap()).collect()
}

fn stark_section(case: &Case, cx: &mut Ctx, r: &mut Rng) {
    use crate::c09::{stark_prove, stark_verify, SCfg};
    use crate::stark::*;
    use starky::proof::StarkProofWithPublicInputs;
    // shape (4, 1): a recurrence table or a lookup table, Poseidon
    let mut rs = Rng::new(case.fault_seed ^ 0x57a4c);
    let log_n = rs.range(2, 5);
    let inst = loop {
        let i = if rs.chance(1, 2) { crate::c10::gen_lookup_instance(&mut rs, log_n) } else { gen_instance(&mut rs, log_n, 3, true) };
        if (i.def.cols, i.def.pis) == (4, 1) {
            break i;
        }
    };
    let mut scfg = SCfg::draw(&mut rs, log_n, inst.def.degree, true);
    scfg.pow_bits = 0;
    scfg.security_bits = 0;
    let scfg = match scfg.admissible(log_n) {
        Some(c) => c,
        None => return,
    };
    let cfg = scfg.to_config();
    case.sched.arm();
    let proof = match stark_prove::<PC, 4, 1>(&inst.def, &cfg, &inst.rows, &inst.pis) {
        Ok(p) => p,
        Err(_) => return,
    };
    if stark_verify::<PC, 4, 1>(&inst.def, &cfg, &proof).is_err() {
        return;
    }
    let tree = serde_json::to_value(&proof).unwrap();
    let base_sig = hash_value(&json!([inst.def, log_n])) ^ hash_str(&scfg.class());
    let mut faults: Vec<Fault> = match &case.only_struct {
        Some((e, f)) if e == "stark" => vec![f.clone()],
        _ => plan(&tree, r, case.dense, false).into_iter().filter(|f| !matches!(f, Fault::Elem { .. }) || r.chance(1, 6)).collect(),
    };
    if case.only_struct.is_none() {
        // optional components switched off / on
        for k in ["auxiliary_polys_cap", "quotient_polys_cap"] {
            faults.push(Fault::Set { path: vec![Seg::K("proof".into()), Seg::K(k.into())], value: Value::Null });
        }
        for k in ["auxiliary_polys", "auxiliary_polys_next", "ctl_zs_first", "quotient_polys"] {
            faults.push(Fault::Set { path: vec![Seg::K("proof".into()), Seg::K("openings".into()), Seg::K(k.into())], value: Value::Null });
            faults.push(Fault::Set { path: vec![Seg::K("proof".into()), Seg::K("openings".into()), Seg::K(k.into())], value: json!([]) });
        }
        faults.push(Fault::Set { path: vec![Seg::K("proof".into()), Seg::K("openings".into()), Seg::K("ctl_zs_first".into())], value: json!([1, 2, 3]) });
        // every combination of optional components switched off at once (a consistent-looking proof of another kind of STARK)
        let opt: [(bool, &str); 6] = [(false, "auxiliary_polys_cap"), (false, "quotient_polys_cap"), (true, "auxiliary_polys"), (true, "auxiliary_polys_next"), (true, "ctl_zs_first"), (true, "quotient_polys")];
        for mask in 1u32..64 {
            if mask.count_ones() < 2 {
                continue;
            }
            let mut pr = tree["proof"].clone();
            for (i, (in_openings, k)) in opt.iter().enumerate() {
                if mask >> i & 1 == 1 {
                    if *in_openings {
                        pr["openings"][*k] = Value::Null;
                    } else {
                        pr[*k] = Value::Null;
                    }
                }
            }
            faults.push(Fault::Set { path: vec![Seg::K("proof".into())], value: pr });
        }
    }
    for f in &faults {
        let mut t = tree.clone();
        if !apply(&mut t, f) {
            continue;
        }
        let p2: StarkProofWithPublicInputs<F, PC, D> = match serde_json::from_value(t) {
            Ok(p) => p,
            Err(_) => continue,
        };
        cx.rep.fault(&format!("stark_struct.{}", f.kind()));
        cx.rep.case(base_sig ^ hash_str("stark") ^ hash_value(&serde_json::to_value(f).unwrap()), true);
        let (v, maxreq) = watched(|| stark_verify::<PC, 4, 1>(&inst.def, &cfg, &p2));
        if maxreq > ALLOC_CAP {
            cx.viol_s("stark", f, "huge_allocation_request", "verify_stark_proof", format!("{maxreq} bytes requested"));
        }
        match v {
            Ok(Err(e)) if e.starts_with("panic: ") => cx.viol_s("stark", f, "verify_stark_proof_panicked", &site(&e[7..]), e),
            Err(e) => cx.viol_s("stark", f, "verify_stark_proof_panicked", &site(&e), e),
            _ => {}
        }
    }
}
