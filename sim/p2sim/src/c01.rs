//! C01 — honest proofs of satisfiable circuits verify and carry the right outputs, under every
//! schedule, entropy stream and admissible configuration.
use plonky2::plonk::config::GenericConfig;
use plonky2::plonk::proof::ProofWithPublicInputs;
use serde::{Deserialize, Serialize};
use serde_json::{json, Value};

use crate::core::*;
use crate::pipeline::*;
use crate::prog::*;
use crate::with_config;

#[derive(Clone, Debug, Serialize, Deserialize)]
pub struct Case {
    pub st: Statement,
    pub sched: Sched,
    pub entropy: Entropy,
}

pub fn gen(rng: &mut Rng, tier: Tier) -> Value {
    let max_ops = if tier == Tier::Quick { 40 } else { 60 };
    let st = draw_statement(rng, max_ops, false, false);
    let mut rs = rng.sub("schedule");
    let mut re = rng.sub("entropy");
    serde_json::to_value(Case { st, sched: Sched::draw(&mut rs), entropy: Entropy::draw(&mut re) }).unwrap()
}

fn viol(rep: &mut Report, case: &Case, oracle: &str, detail: String) {
    rep.violation("C01", oracle, &format!("C01|{oracle}"), detail, serde_json::to_value(case).unwrap());
}

pub fn prog_shape(p: &Program) -> u64 {
    let names: Vec<String> = p.ops.iter().map(|o| format!("{:?}", o).split('(').next().unwrap().to_string()).collect();
    hash_value(&json!([names, p.inputs.iter().map(|v| format!("{:?}", v.ty())).collect::<Vec<_>>(), p.tables.iter().map(|t| t.len()).collect::<Vec<_>>()]))
}

fn exec_c<C: GenericConfig<D, F = F>>(case: &Case, rep: &mut Report) {
    let built = match build::<C>(&case.st) {
        BuildOutcome::Ok(b) => b,
        BuildOutcome::Unsat(s) => {
            rep.skip(&format!("unsat:{s}"));
            return;
        }
        BuildOutcome::Panicked(e) => {
            rep.case(prog_shape(&case.st.prog), true);
            viol(rep, case, "build_panicked", e);
            return;
        }
    };
    let expected = case.st.prog.expected_public(&case.st.prog.inputs).expect("evaluated before");
    arm(&case.sched, &case.entropy);
    let proof = built.prove(built.honest_witness(&case.st));
    rep.absorb_seams();
    let st = rayon::sim::stats();
    let sig = prog_shape(&case.st.prog) ^ hash_str(&built.cfg.class()) ^ st.trace ^ hash_value(&json!(case.st.prog.inputs));
    let c = &built.cfg;
    rep.probe(&format!("cfg.hash.{}", c.hash));
    rep.probe(&format!("cfg.zk.{}", c.zero_knowledge));
    rep.probe(&format!("cfg.strategy.{}", match &c.strategy { Strat::Fixed(_) => "fixed", Strat::ConstantArityBits(..) => "constant", Strat::MinSize(_) => "minsize" }));
    rep.probe(&format!("cfg.challenges.{}", c.num_challenges));
    rep.probe(&format!("degree_bits.{}", built.data.common.degree_bits()));
    if !case.st.prog.tables.is_empty() {
        rep.probe("prog.lookups");
    }
    rep.probe(&format!("entropy.{}", case.entropy.mode));
    for g in &built.data.common.gates {
        let id = g.0.id();
        rep.probe(&format!("gate.{}", id.split(|ch| ch == ' ' || ch == '{' || ch == '<' || ch == '(').next().unwrap()));
    }
    rep.case(sig, true);
    let proof: ProofWithPublicInputs<F, C, D> = match proof {
        Ok(p) => p,
        Err(e) => {
            viol(rep, case, "honest_prove_failed", e);
            return;
        }
    };
    if let Err(e) = built.verify(&proof) {
        viol(rep, case, "honest_proof_rejected", e);
        return;
    }
    if canon(&proof.public_inputs) != expected {
        viol(rep, case, "public_inputs_differ_from_reference", format!("got {:?} expected {:?}", canon(&proof.public_inputs), expected));
        return;
    }
    // channel without faults: encode, decode, verify again
    let bytes = proof.to_bytes();
    rep.observe_bytes(&bytes);
    match guarded(|| ProofWithPublicInputs::<F, C, D>::from_bytes(bytes.clone(), &built.data.common)) {
        Ok(Ok(p2)) => {
            if p2 != proof {
                viol(rep, case, "decoded_proof_differs", String::new());
            } else if let Err(e) = built.verify(&p2) {
                viol(rep, case, "decoded_proof_rejected", e);
            }
        }
        Ok(Err(e)) => viol(rep, case, "honest_proof_does_not_decode", format!("{e}")),
        Err(e) => viol(rep, case, "honest_proof_does_not_decode", format!("panic {e}")),
    }
    // verifiers are stateless: the same proof is accepted a second time
    if built.verify(&proof).is_err() {
        viol(rep, case, "replayed_proof_rejected", String::new());
    }
    rep.sample(json!({"ops": case.st.prog.ops.len(), "config": built.cfg.class(), "degree_bits": built.data.common.degree_bits(),
        "workers": case.sched.workers, "entropy": case.entropy.mode, "public_inputs": expected.len(), "first_ops": case.st.prog.ops.iter().take(6).collect::<Vec<_>>()}));
}

pub fn exec(case: &Value, rep: &mut Report) {
    let case: Case = serde_json::from_value(case.clone()).expect("malformed C01 case");
    with_config!(case.st.cfg.hash, exec_c, &case, rep)
}

pub fn shrink(case: &Value) -> Vec<Value> {
    let c: Case = serde_json::from_value(case.clone()).unwrap();
    let mut out = Vec::new();
    if c.sched.workers > 1 {
        let mut d = c.clone();
        d.sched = Sched::sequential();
        out.push(d);
    }
    if c.entropy.mode != "stream" {
        let mut d = c.clone();
        d.entropy = Entropy { seed: 0, mode: "stream".into() };
        out.push(d);
    }
    for st in shrink_statement(&c.st) {
        let mut d = c.clone();
        d.st = st;
        out.push(d);
    }
    out.into_iter().map(|d| serde_json::to_value(d).unwrap()).collect()
}
