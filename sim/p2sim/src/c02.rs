//! C02 — no accepted proof exists for an assignment that violates the circuit.
//! A Byzantine prover node: write-event faults during (simulator-driven) witness generation, cell
//! and copy-class faults on the finished matrix, adversarial strategies H1/H2/H4/H5.
use plonky2::field::types::{Field, PrimeField64};
use plonky2::iop::generator::GeneratedValues;
use plonky2::iop::target::Target;
use plonky2::iop::wire::Wire;
use plonky2::iop::witness::{PartialWitness, PartitionWitness, WitnessWrite};
use plonky2::plonk::config::GenericConfig;
use plonky2::plonk::proof::ProofWithPublicInputs;
use plonky2::plonk::prover::prove_with_partition_witness;
use plonky2::util::timing::TimingTree;
use serde::{Deserialize, Serialize};
use serde_json::{json, Value};

use crate::c01::prog_shape;
use crate::core::*;
use crate::pipeline::*;
use crate::prog::*;
use crate::sat::*;
use crate::with_config;

#[derive(Clone, Debug, Default, PartialEq, Serialize, Deserialize)]
pub struct Knobs {
    pub z_init: Option<u64>,
    pub quotient_delta: Option<(usize, usize, u64)>,
    pub pow_witness: Option<u64>,
    pub final_poly_delta: Option<(usize, u64)>,
}

impl Knobs {
    pub fn any(&self) -> bool {
        self.z_init.is_some() || self.quotient_delta.is_some() || self.pow_witness.is_some() || self.final_poly_delta.is_some()
    }
    #[cfg(feature = "hooks")]
    pub fn arm(&self) {
        plonky2::util::verif_hooks::set(plonky2::util::verif_hooks::Knobs {
            z_init: self.z_init,
            quotient_delta: self.quotient_delta,
            pow_witness: self.pow_witness,
            final_poly_delta: self.final_poly_delta,
        });
    }
    #[cfg(feature = "hooks")]
    pub fn disarm() {
        plonky2::util::verif_hooks::clear();
    }
    #[cfg(not(feature = "hooks"))]
    pub fn arm(&self) {}
    #[cfg(not(feature = "hooks"))]
    pub fn disarm() {}
}

#[derive(Clone, Debug, Default, PartialEq, Serialize, Deserialize)]
pub struct PFault {
    /// (target index, kind, seed): one cell of the finished matrix, every cell its own partition
    pub cell: Option<(usize, String, u64)>,
    /// (event number, kind, seed): the k-th write of a generator during generation
    pub gen_write: Option<(usize, String, u64)>,
    /// seed of the order in which pending generators are run (None = library order)
    pub gen_order: Option<u64>,
    pub knobs: Knobs,
    /// Byzantine bookkeeping: run the prover with `prover_only.lookup_rows[t].last_lu_gate` one row later
    /// (applied by the caller that owns the circuit; C08)
    #[serde(default)]
    pub shift_lookup_rows: Option<usize>,
    /// (input index, value): the honest prover run on another input assignment (applied by the caller)
    #[serde(default)]
    pub input: Option<(usize, u64)>,
}

impl PFault {
    pub fn kind(&self) -> String {
        let mut k = Vec::new();
        if self.gen_write.is_some() {
            k.push("gen_write");
        }
        if self.cell.is_some() {
            k.push("cell");
        }
        if self.shift_lookup_rows.is_some() {
            k.push("shift_lookup_rows");
        }
        if self.input.is_some() {
            k.push("input");
        }
        if self.knobs.z_init.is_some() {
            k.push("H1.z_init");
        }
        if self.knobs.quotient_delta.is_some() {
            k.push("H2.quotient_delta");
        }
        if self.knobs.pow_witness.is_some() {
            k.push("H4.pow_witness");
        }
        if self.knobs.final_poly_delta.is_some() {
            k.push("H5.final_poly_delta");
        }
        if k.is_empty() {
            k.push("none");
        }
        k.join("+")
    }
}

#[derive(Clone, Debug, Serialize, Deserialize)]
pub struct Case {
    pub st: Statement,
    pub sched: Sched,
    pub entropy: Entropy,
    pub fault_seed: u64,
    pub all_events: bool,
    #[serde(default)]
    pub only: Option<PFault>,
}

pub fn gen(rng: &mut Rng, tier: Tier) -> Value {
    let mut st = draw_statement(rng, 14, true, false);
    {
        // keep the Byzantine prover's circuits small: every fault costs a full proof
        let mut rz = rng.sub("c02zk");
        if st.cfg.zero_knowledge && !rz.chance(1, 3) {
            st.cfg.zero_knowledge = false;
        }
        st.cfg.rate_bits = 3;
    }
    st.cfg.num_query_rounds = st.cfg.num_query_rounds.max(if st.cfg.zero_knowledge { 8 } else { 13 });
    st.cfg.security_bits = st.cfg.security_bits.min(st.cfg.num_query_rounds * st.cfg.rate_bits);
    st.cfg.pow_bits = st.cfg.pow_bits.min(10);
    let mut rs = rng.sub("schedule");
    let mut re = rng.sub("entropy");
    let mut rf = rng.sub("faults");
    serde_json::to_value(Case {
        st,
        sched: Sched::draw(&mut rs),
        entropy: Entropy::draw(&mut re),
        fault_seed: rf.u64(),
        all_events: tier == Tier::Thorough && rf.chance(1, 20),
        only: None,
    })
    .unwrap()
}

fn new_value(old: F, kind: &str, seed: u64) -> F {
    match kind {
        "zero" => F::ZERO,
        "one" => F::ONE,
        "set" => F::from_canonical_u64(seed % crate::core::P),
        "random" => F::from_canonical_u64(Rng::new(seed).felt()),
        _ => old + F::ONE,
    }
}

pub struct GenOutcome<'a> {
    pub witness: Result<PartitionWitness<'a, F>, String>,
    pub events: usize,
    pub fired: bool,
}

/// The simulator's own driver of witness generation (same semantics as the library's
/// `generate_partial_witness`, public pieces only): the order of pending generators is a scheduling
/// decision and every write event is a fault point.
pub fn sim_generate<'a, C: GenericConfig<D, F = F>>(
    inputs: PartialWitness<F>,
    data: &'a plonky2::plonk::circuit_data::CircuitData<F, C, D>,
    order_seed: Option<u64>,
    fault: Option<&(usize, String, u64)>,
) -> GenOutcome<'a> {
    let po = &data.prover_only;
    let mut w = PartitionWitness::new(data.common.config.num_wires, data.common.degree(), &po.representative_map);
    let mut ins: Vec<(Target, F)> = inputs.target_values.into_iter().collect();
    ins.sort_by_key(|(t, _)| t.index(data.common.config.num_wires, data.common.degree()));
    for (t, v) in ins {
        if let Err(e) = w.set_target(t, v) {
            return GenOutcome { witness: Err(format!("{e}")), events: 0, fired: false };
        }
    }
    let n = po.generators.len();
    let mut pending: Vec<usize> = (0..n).collect();
    let mut expired = vec![false; n];
    let mut remaining = n;
    let mut buffer = GeneratedValues::empty();
    let mut ord = order_seed.map(Rng::new);
    let mut events = 0usize;
    let mut fired = false;
    while !pending.is_empty() {
        if let Some(r) = ord.as_mut() {
            r.shuffle(&mut pending);
        }
        let mut next = Vec::new();
        for &g in &pending {
            if expired[g] {
                continue;
            }
            let finished = match guarded(|| po.generators[g].0.run(&w, &mut buffer)) {
                Ok(f) => f,
                Err(e) => return GenOutcome { witness: Err(format!("generator panicked: {e}")), events, fired },
            };
            if finished {
                expired[g] = true;
                remaining -= 1;
            }
            let mut reps = Vec::new();
            for (t, mut v) in buffer.target_values.drain(..) {
                if let Some((k, kind, seed)) = fault {
                    if events == *k {
                        v = new_value(v, kind, *seed);
                        fired = true;
                    }
                }
                events += 1;
                match w.set_target_returning_rep(t, v) {
                    Ok(r) => reps.extend(r),
                    Err(e) => return GenOutcome { witness: Err(format!("{e}")), events, fired },
                }
            }
            for rep in reps {
                if let Some(ws) = po.generator_indices_by_watches.get(&rep) {
                    for &x in ws {
                        if !expired[x] {
                            next.push(x);
                        }
                    }
                }
            }
        }
        pending = next;
    }
    if remaining != 0 {
        return GenOutcome { witness: Err(format!("{remaining} generators weren't run")), events, fired };
    }
    GenOutcome { witness: Ok(w), events, fired }
}

fn viol(rep: &mut Report, case: &Case, f: &PFault, oracle: &str, what: &str, detail: String) {
    let mut c = case.clone();
    c.only = Some(f.clone());
    rep.violation("C02", oracle, &format!("C02|{oracle}|{}|{what}", f.kind()), detail, serde_json::to_value(&c).unwrap());
}

pub struct Verdict {
    pub sat: Sat,
    pub accepted: bool,
    pub prover: String,
    pub legit_pow: bool,
    pub pis: Vec<u64>,
}

/// Run the Byzantine prover with one fault and hand whatever comes back to the real verifier.
/// Outcome of running the honest prover on another input assignment (the reference evaluator decides satisfiability).
pub enum InputVerdict {
    Skip,
    /// the reference evaluator rejects the assignment for a reason no witness can repair
    Unsat { msg: String, accepted: bool, sat: String },
    /// the reference evaluator accepts the assignment; `differs` = the accepted proof carries other public inputs
    Sat { differs: bool, accepted: bool },
}

pub fn run_input_fault<C: GenericConfig<D, F = F>>(built: &Built<C>, ctx: &SatCtx, st: &Statement, sched: &Sched, entropy: &Entropy, i: usize, nv: u64) -> InputVerdict {
    if i >= st.prog.inputs.len() || st.prog.inputs[i] == Val::F(nv) || !matches!(st.prog.inputs[i], Val::F(_)) {
        return InputVerdict::Skip;
    }
    let mut st2 = st.clone();
    st2.prog.inputs[i] = Val::F(nv);
    let reference = st2.prog.expected_public(&st2.prog.inputs);
    let v = match run_fault(built, ctx, &st2, sched, entropy, &PFault::default()) {
        Some(v) => v,
        None => return InputVerdict::Skip,
    };
    const UNSAT: [&str; 7] = ["range_check fails", "split_le: value too wide", "low_bits: value too wide", "split_low_high: value too wide", "split_le_base: value too wide", "exp: exponent too wide", "lookup: input not in table"];
    match reference {
        Err(EvalError::Precondition(m)) if UNSAT.contains(&m.as_str()) => InputVerdict::Unsat { msg: m, accepted: v.accepted, sat: format!("{:?}", v.sat) },
        Ok(exp) => InputVerdict::Sat { differs: v.pis != exp, accepted: v.accepted },
        _ => InputVerdict::Skip,
    }
}

pub fn run_fault<C: GenericConfig<D, F = F>>(built: &Built<C>, ctx: &SatCtx, st: &Statement, sched: &Sched, entropy: &Entropy, f: &PFault) -> Option<Verdict> {
    let data = &built.data;
    entropy.arm();
    let g = sim_generate::<C>(built.honest_witness(st), data, f.gen_order, f.gen_write.as_ref());
    if f.gen_write.is_some() && !g.fired {
        return None;
    }
    let honest = match g.witness {
        Ok(w) => w,
        Err(e) => {
            return Some(Verdict { sat: Sat::Sigma("generation failed".into()), accepted: false, prover: format!("generation: {e}"), legit_pow: false, pis: vec![] })
        }
    };
    let ident: Vec<usize> = (0..honest.representative_map.len()).collect();
    let w = match &f.cell {
        Some((idx, kind, seed)) => {
            let rep = honest.representative_map[*idx];
            let old = honest.values[rep].unwrap_or(F::ZERO);
            let nv = new_value(old, kind, *seed);
            if honest.values[rep] == Some(nv) {
                return None;
            }
            ident_witness(&honest, &ident, &[(*idx, nv)])
        }
        None => honest.clone(),
    };
    let pis = public_inputs_of(data, &w);
    // the statement checker sees the matrix the prover will commit to: lookup padding and
    // multiplicities are filled in by the library's own routine (it fails iff a looked-up input is
    // not in its table or a pre-set cell conflicts)
    let mut wl = w.clone();
    let sat = match guarded(|| plonky2::plonk::prover::set_lookup_wires(&data.prover_only, &data.common, &mut wl)) {
        Ok(Ok(())) => ctx.check(data, &wl.full_witness(), &pis),
        _ => Sat::Lookup { row: usize::MAX, slot: usize::MAX },
    };
    arm(sched, entropy);
    f.knobs.arm();
    let r = guarded(|| prove_with_partition_witness(&data.prover_only, &data.common, w, &mut TimingTree::default()));
    Knobs::disarm();
    let (accepted, prover, legit_pow, pis_out) = match r {
        Ok(Ok(p)) => {
            let p: ProofWithPublicInputs<F, C, D> = p;
            let acc = built.verify(&p).is_ok();
            // a hand-picked grinding witness that happens to satisfy the proof-of-work is legitimate
            let legit = f.knobs.pow_witness.is_some()
                && p.get_challenges(p.get_public_inputs_hash(), &data.verifier_only.circuit_digest, &data.common)
                    .map(|c| c.fri_challenges.fri_pow_response.to_canonical_u64().leading_zeros() >= data.common.config.fri_config.proof_of_work_bits + (64 - F::order().bits()) as u32)
                    .unwrap_or(false);
            (acc, "proof".to_string(), legit, canon(&p.public_inputs))
        }
        Ok(Err(e)) => (false, format!("Err: {e}"), false, vec![]),
        Err(e) => (false, format!("panic: {e}"), false, vec![]),
    };
    Some(Verdict { sat, accepted, prover, legit_pow, pis: pis_out })
}

fn exec_c<C: GenericConfig<D, F = F>>(case: &Case, rep: &mut Report) {
    let built = match build::<C>(&case.st) {
        BuildOutcome::Ok(b) => b,
        BuildOutcome::Unsat(s) => {
            rep.skip(&format!("unsat:{s}"));
            return;
        }
        BuildOutcome::Panicked(_) => {
            rep.skip("base:build_panicked (reported by C01)");
            return;
        }
    };
    if built.cfg.num_query_rounds * built.lde_bits() < 64 {
        rep.skip("R3 floor: q*lde_bits < 64");
        return;
    }
    let data = &built.data;
    let common = &data.common;
    let ctx = SatCtx::new(data);
    let base_sig = prog_shape(&case.st.prog) ^ hash_str(&built.cfg.class()) ^ hash_value(&json!(case.st.prog.inputs));
    let (n, nw, nr) = (common.degree(), common.config.num_wires, common.config.num_routed_wires);
    let mut r = Rng::new(case.fault_seed);

    // ---- fault-free configuration: library-order and reordered generation are both accepted
    let base = PFault::default();
    let v0 = match run_fault(&built, &ctx, &case.st, &case.sched, &case.entropy, &base) {
        Some(v) => v,
        None => return,
    };
    rep.absorb_seams();
    if !v0.sat.ok() {
        rep.case(base_sig, true);
        viol(rep, case, &base, "honest_witness_violates_statement_checker", v0.sat.kind(), format!("{:?}", v0.sat));
        return;
    }
    if !v0.accepted {
        rep.skip("base:honest_proof_rejected (reported by C01)");
        return;
    }
    let reordered = PFault { gen_order: Some(r.u64()), ..Default::default() };
    let reorder_ok = case.only.is_some()
        || match run_fault(&built, &ctx, &case.st, &case.sched, &case.entropy, &reordered) {
            Some(v) if v.sat.ok() && v.accepted => {
                rep.probe("c02.reordered_generation_accepted");
                true
            }
            _ => {
                rep.probe("c02.reordered_generation_failed");
                false
            }
        };
    // number of write events
    case.entropy.arm();
    let events = sim_generate::<C>(built.honest_witness(&case.st), data, None, None).events;

    // ---- the fault plan
    let mut plan: Vec<PFault> = Vec::new();
    if let Some(f) = &case.only {
        plan.push(f.clone());
    } else {
        case.entropy.arm();
        let honest = sim_generate::<C>(built.honest_witness(&case.st), data, None, None).witness.unwrap();
        let set_wires: Vec<usize> = (0..n * nw)
            .filter(|&i| {
                let (row, col) = (i / nw, i % nw);
                let idx = Target::Wire(Wire { row, column: col }).index(nw, n);
                honest.values[honest.representative_map[idx]].is_some()
            })
            .collect();
        let tidx = |row: usize, col: usize| Target::Wire(Wire { row, column: col }).index(nw, n);
        let kinds = ["plus1", "zero", "random", "one"];
        // cells: written wires (routed and advice), first / last rows, unset wires
        for _ in 0..7 {
            if set_wires.is_empty() {
                break;
            }
            let i = *r.pick(&set_wires);
            plan.push(PFault { cell: Some((tidx(i / nw, i % nw), r.pick(&kinds).to_string(), r.u64())), ..Default::default() });
        }
        for (row, col) in [(0, r.usize(nr)), (n - 1, r.usize(nw)), (r.usize(n), nr + r.usize(nw - nr)), (r.usize(n), r.usize(nw))] {
            plan.push(PFault { cell: Some((tidx(row, col), "plus1".into(), 0)), ..Default::default() });
        }
        // copy classes: one member of a class with >= 2 members gets another value
        let big: Vec<&Vec<(usize, usize)>> = ctx.classes.iter().filter(|c| c.len() >= 2).collect();
        for _ in 0..3 {
            if big.is_empty() {
                break;
            }
            let cl = *r.pick(&big);
            let (row, col) = *r.pick(cl);
            plan.push(PFault { cell: Some((tidx(row, col), "plus1".into(), 0)), ..Default::default() });
        }
        // public inputs
        for t in data.prover_only.public_inputs.iter().take(40) {
            if r.chance(1, 6) {
                plan.push(PFault { cell: Some((t.index(nw, n), "plus1".into(), 0)), ..Default::default() });
            }
        }
        // lookup rows: a looked-up output, a table cell
        for lw in data.prover_only.lookup_rows.iter() {
            use plonky2::gates::lookup::LookupGate;
            use plonky2::gates::lookup_table::LookupTableGate;
            let slots = (common.config.num_routed_wires / 2);
            if lw.last_lut_gate > lw.last_lu_gate {
                let row = lw.last_lu_gate + r.usize(lw.last_lut_gate - lw.last_lu_gate);
                let s = r.usize(slots);
                plan.push(PFault { cell: Some((tidx(row, LookupGate::wire_ith_looking_out(s)), "plus1".into(), 0)), ..Default::default() });
            }
            plan.push(PFault { cell: Some((tidx(lw.first_lut_gate, LookupTableGate::wire_ith_looked_out(0)), "plus1".into(), 0)), ..Default::default() });
        }
        // another input assignment through the honest API: inputs at the powers of two where range assertions flip
        if !case.st.prog.ops.iter().any(|o| matches!(o, Op::MerkleVerify(..))) {
            let fin: Vec<usize> = (0..case.st.prog.inputs.len()).filter(|i| matches!(case.st.prog.inputs[*i], Val::F(_))).collect();
            // a looked-up input moved to an input that only another table holds
            for op in &case.st.prog.ops {
                if let Op::Lookup(t, x) = op {
                    if *x < case.st.prog.inputs.len() {
                        let mine = &case.st.prog.tables[*t];
                        let foreign: Vec<u64> = case.st.prog.tables.iter().enumerate().filter(|(k, _)| k != t).flat_map(|(_, tb)| tb.iter().map(|(a, _)| *a as u64)).filter(|a| !mine.iter().any(|(m, _)| *m as u64 == *a)).collect();
                        for v in foreign.iter().take(3) {
                            plan.push(PFault { input: Some((*x, *v)), ..Default::default() });
                        }
                    }
                }
            }
            for &i in fin.iter().take(2) {
                for _ in 0..4 {
                    let v = *r.pick(&[2u64, 16, 17, 256, 300, 1 << 16, 1 << 32, 1 << 48, (1 << 63) + 5]);
                    plan.push(PFault { input: Some((i, v)), ..Default::default() });
                }
            }
        }
        // write events
        if reorder_ok && events > 0 {
            let evs: Vec<usize> = if case.all_events && n <= 64 { (0..events).collect() } else { (0..6).map(|_| r.usize(events)).collect() };
            for k in evs {
                plan.push(PFault { gen_write: Some((k, r.pick(&kinds).to_string(), r.u64())), gen_order: if r.chance(1, 2) { Some(r.u64()) } else { None }, ..Default::default() });
            }
        }
        // strategies on the valid witness, and combined with a cell fault
        if cfg!(feature = "hooks") {
            plan.push(PFault { knobs: Knobs { z_init: Some(0), ..Default::default() }, ..Default::default() });
            plan.push(PFault { knobs: Knobs { z_init: Some(r.felt().max(2)), ..Default::default() }, ..Default::default() });
            for j in 0..common.config.num_challenges {
                plan.push(PFault { knobs: Knobs { quotient_delta: Some((j, r.usize(1 << 20), 1 + r.below(1 << 32))), ..Default::default() }, ..Default::default() });
            }
            if common.config.fri_config.proof_of_work_bits > 0 {
                plan.push(PFault { knobs: Knobs { pow_witness: Some(r.felt()), ..Default::default() }, ..Default::default() });
            }
            plan.push(PFault { knobs: Knobs { final_poly_delta: Some((r.usize(1 << 20), 1 + r.below(1 << 32))), ..Default::default() }, ..Default::default() });
            // all-zero accumulator on a witness whose only violation is a copy class
            if let Some(cl) = big.first() {
                let (row, col) = cl[0];
                plan.push(PFault { cell: Some((tidx(row, col), "plus1".into(), 0)), knobs: Knobs { z_init: Some(0), ..Default::default() }, ..Default::default() });
            }
        }
    }

    for f in &plan {
        if let Some((i, nv)) = f.input {
            let sig = base_sig ^ hash_value(&serde_json::to_value(f).unwrap());
            match run_input_fault::<C>(&built, &ctx, &case.st, &case.sched, &case.entropy, i, nv) {
                InputVerdict::Skip => {}
                InputVerdict::Unsat { msg, accepted, sat } => {
                    rep.fault("input");
                    rep.case(sig, true);
                    rep.probe("c02.input_assignment_the_reference_rejects");
                    if accepted {
                        viol(rep, case, f, "accepted_proof_for_inputs_the_reference_rejects", "oracle_b", format!("input {i} := {nv}: the reference evaluator says '{msg}', the statement checker says {sat}"));
                    }
                }
                InputVerdict::Sat { differs, accepted } => {
                    rep.fault("input");
                    rep.case(sig, false);
                    if accepted && differs {
                        viol(rep, case, f, "accepted_public_inputs_differ_from_reference", "oracle_b", format!("input {i} := {nv}"));
                    }
                }
            }
            continue;
        }
        let v = match run_fault(&built, &ctx, &case.st, &case.sched, &case.entropy, f) {
            Some(v) => v,
            None => continue,
        };
        let sig = base_sig ^ hash_value(&serde_json::to_value(f).unwrap());
        rep.fault(&f.kind());
        let strategy_must_reject = f.knobs.z_init.is_some() || f.knobs.quotient_delta.is_some() || f.knobs.final_poly_delta.is_some() || (f.knobs.pow_witness.is_some() && !v.legit_pow);
        let must_reject = !v.sat.ok() || strategy_must_reject;
        rep.case(sig, must_reject);
        if !v.sat.ok() {
            rep.probe(&format!("c02.sat_violated.{}", v.sat.kind()));
        }
        rep.probe(&format!("c02.prover_outcome.{}", if v.prover == "proof" { "proof" } else if v.prover.starts_with("panic") { "panic" } else { "Err" }));
        if v.accepted && must_reject {
            let what = if !v.sat.ok() { v.sat.kind() } else { "strategy" };
            viol(rep, case, f, "accepted_proof_of_violated_statement", what, format!("fault {:?}; statement checker: {:?}", f, v.sat));
            continue;
        }
        if !v.accepted && v.sat.ok() && !strategy_must_reject && f.gen_write.is_none() {
            rep.probe("c02.unconstrained_cell_change_rejected");
        }
        if v.accepted {
            rep.probe("c02.accepted_unconstrained_change (trivial)");
            // Oracle B: whatever is accepted carries outputs that the reference evaluator confirms
            if let Some(inputs) = case.st.prog.inputs_from_public(&v.pis) {
                if let Ok(exp) = case.st.prog.expected_public(&inputs) {
                    rep.probe("c02.oracle_b_evaluated");
                    if exp != v.pis {
                        viol(rep, case, f, "accepted_public_inputs_differ_from_reference", "oracle_b", format!("fault {:?}", f));
                    }
                }
            }
        }
    }
    rep.sample(json!({"config": built.cfg.class(), "degree_bits": common.degree_bits(), "ops": case.st.prog.ops.len(), "write_events": events, "faults": plan.len(),
        "example": plan.get(plan.len() / 2)}));
}

pub fn exec(case: &Value, rep: &mut Report) {
    let case: Case = serde_json::from_value(case.clone()).expect("malformed C02 case");
    with_config!(case.st.cfg.hash, exec_c, &case, rep)
}

pub fn shrink(case: &Value) -> Vec<Value> {
    let c: Case = serde_json::from_value(case.clone()).unwrap();
    let mut out = Vec::new();
    if c.sched.workers > 1 {
        let mut d = c.clone();
        d.sched = Sched::sequential();
        out.push(d);
    }
    // cell indices / event numbers are positional: statement shrinking is only tried for strategy-only faults
    let positional = c.only.as_ref().map_or(false, |f| f.cell.is_some() || f.gen_write.is_some());
    for st in shrink_statement(&c.st) {
        if st.cfg.num_query_rounds < 8 {
            continue;
        }
        if positional && st.prog != c.st.prog {
            continue;
        }
        if positional && (st.cfg.num_wires != c.st.cfg.num_wires || st.cfg.zero_knowledge != c.st.cfg.zero_knowledge || st.cfg.num_constants != c.st.cfg.num_constants
            || st.cfg.use_base_arithmetic_gate != c.st.cfg.use_base_arithmetic_gate || st.cfg.num_routed_wires != c.st.cfg.num_routed_wires) {
            continue;
        }
        let mut d = c.clone();
        d.st = st;
        out.push(d);
    }
    out.into_iter().map(|d| serde_json::to_value(d).unwrap()).collect()
}

/// The proof (if any) that the Byzantine prover emits for one fault — for aggregator checks.
pub fn byz_proof<C: GenericConfig<D, F = F>>(built: &Built<C>, st: &Statement, sched: &Sched, entropy: &Entropy, f: &PFault) -> Option<ProofWithPublicInputs<F, C, D>> {
    let data = &built.data;
    entropy.arm();
    let g = sim_generate::<C>(built.honest_witness(st), data, f.gen_order, f.gen_write.as_ref());
    let honest = g.witness.ok()?;
    let ident: Vec<usize> = (0..honest.representative_map.len()).collect();
    let w = match &f.cell {
        Some((idx, kind, seed)) => {
            let rep = honest.representative_map[*idx];
            let old = honest.values[rep].unwrap_or(F::ZERO);
            ident_witness(&honest, &ident, &[(*idx, new_value(old, kind, *seed))])
        }
        None => honest.clone(),
    };
    arm(sched, entropy);
    f.knobs.arm();
    let r = guarded(|| prove_with_partition_witness(&data.prover_only, &data.common, w, &mut TimingTree::default()));
    Knobs::disarm();
    match r {
        Ok(Ok(p)) => Some(p),
        _ => None,
    }
}
