"""C19 driver: nodes are processes of several build variants; this module is the transport between them."""
import json
import os

import importlib.machinery
import importlib.util


def _check_mod():
    here = os.path.dirname(os.path.abspath(__file__))
    loader = importlib.machinery.SourceFileLoader("check_mod", os.path.join(here, "check"))
    spec = importlib.util.spec_from_loader("check_mod", loader)
    m = importlib.util.module_from_spec(spec)
    loader.exec_module(m)
    return m


def run(prop, meta, bins, tier, seed, runs, jobs, workdir, chk):
    variants = list(bins)
    reports, crashes = [], []
    arts = {}
    # phase 1: every node works locally and emits its artifacts
    for v in variants:
        wd = os.path.join(workdir, "local-" + v)
        r, c = chk.run_workers(bins[v], prop, tier, seed, runs, jobs, wd, artifacts=True)
        reports += r
        crashes += c
        arts[v] = []
        for w in range(jobs):
            f = os.path.join(wd, "w%d.art" % w)
            if os.path.exists(f):
                for line in open(f):
                    arts[v].append(json.loads(line))
        arts[v].sort(key=lambda a: a["idx"])
    # phase 2: every node consumes every other node's artifacts
    delivered = 0
    for a in variants:
        for b in variants:
            if a == b or not arts[a]:
                continue
            wd = os.path.join(workdir, "%s-to-%s" % (a, b))
            os.makedirs(wd, exist_ok=True)
            cases = os.path.join(wd, "cases.jsonl")
            with open(cases, "w") as f:
                for art in arts[a]:
                    case = dict(art["artifact"]["case"])
                    case["scheds"] = case["scheds"][:1]
                    case["foreign"] = {"variant": a, "digests": art["artifact"]["digests"], "proofs": art["artifact"]["proofs"]}
                    f.write(json.dumps(case) + "\n")
                    delivered += 1
            r, c = chk.run_workers(bins[b], prop, tier, seed, len(arts[a]), jobs, wd, extra=["--cases", cases])
            for rep in r:
                for viol in rep["violations"]:
                    viol["case"]["_variant"] = b
            reports += r
            crashes += c
    tot = chk.merge(reports)
    tot["probes"]["c19.artifacts_delivered_between_nodes"] = delivered
    tot["probes"]["c19.nodes"] = len(variants)
    return tot, crashes
