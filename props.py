"""Per-property metadata for the driver and the MANIFEST generator."""

VARIANTS = {
    "v0": {"rustflags": "-C debug-assertions=off", "hash_seed": "verif-a",
           "what": "x86-64 baseline (scalar Packing), release arithmetic"},
    "v1": {"rustflags": "-C target-feature=+avx2,+bmi2 -C debug-assertions=off", "hash_seed": "verif-b",
           "what": "AVX2 Packing, second hash-map seed"},
    "v2": {"rustflags": "-C target-cpu=native -C debug-assertions=off", "hash_seed": "verif-c",
           "what": "native CPU (AVX-512 Packing where available), third hash-map seed"},
    "v3": {"rustflags": "-C debug-assertions=on -C overflow-checks=on", "hash_seed": "verif-d",
           "what": "baseline + debug assertions + overflow checks, fourth hash-map seed"},
}

COMPONENTS = {
    "real": ["plonky2", "starky", "plonky2_field", "plonky2_util", "plonky2_maybe_rayon", "hashbrown", "ahash",
             "keccak-hash", "rand/rand_core (OsRng wrapper)"],
    "stub": ["rayon (sim/shims/rayon: single-threaded seeded fork-join scheduler)",
             "getrandom (sim/shims/getrandom: seeded entropy source behind OsRng)"],
}

COMMON_ASSUMPTIONS = [
    "the rayon shim executes closures in a linearisation real rayon could produce; closures are not preempted mid-way, so torn writes are out of reach",
    "collision resistance of Poseidon / Keccak-25 digests (a 'must reject' oracle fails with probability <= 2^-60 per case)",
    "seeded sampling, not enumeration: a clean batch is evidence, not proof",
]

PROPS = {}


def prop(pid, level, runs, rule, technique, text, note, variants=None, assumptions=(), design_ref="DESIGN.md §5", **kw):
    PROPS[pid] = dict(level=level, runs={"quick": runs[0], "thorough": runs[1]}, rule=rule, technique=technique,
                      text=text, note=note,
                      variants=variants or {"quick": ["v0"], "thorough": ["v0"]},
                      assumptions=list(assumptions) + COMMON_ASSUMPTIONS, design_ref=design_ref, **kw)


prop("C12", "exploration", (24000, 60000),
     rule="one run = one seeded tree scenario (hasher, leaf-count 2^0..2^10, widths 1..20 on both sides of the hash_or_noop threshold, cap height, "
          "1..4 matrix heights, fork-join schedule with 1..16 simulated workers); a case = one oracle check of that scenario (cap vs REF-MERKLE, "
          "schedule independence, an opening, or one fault on an opening: other leaf / other position / each altered sibling / altered or swapped cap entry / "
          "altered lower-matrix leaf / compress-decompress of an index multiset). Half of the scenarios commit to leaves holding some elements in their non-canonical representation x+p while the reference tree is computed over the canonical values; simulated worker counts include 3, 5, 6, 7. distinct = distinct hash of (scenario, position, fault); "
          "non-trivial = the tree has >= 2 leaves and the fault changed the value (for schedule independence: > 1 simulated worker)",
     technique="deterministic simulation: seeded fork-join schedules over Merkle construction + opening fault injection vs sequential reference tree",
     text="Seeded exploration of fork-join schedules (join order, chunk order, 1-16 simulated workers) of MerkleTree/BatchMerkleTree construction, "
          "with the cap and every sibling compared against a sequential reference tree, and single-fault injection on every opening "
          "(leaf, position, each sibling, cap entry) that must be rejected; path compression round-trips on seeded index multisets.",
     note="Trusts the hash primitives (hash_or_noop/two_to_one) and the shim's fidelity to rayon's fork-join semantics; torn writes are not modelled.")

prop("C01", "exploration", (4000, 40000),
     rule="one run = one seeded scenario: program (3..60 ops from a random subset of op families: arithmetic, extension arithmetic, bit/limb decomposition, "
          "range checks, selection/logic, random access, exponentiation, Poseidon hashing, Merkle membership, reductions, lookups, assertions) with boundary-biased "
          "satisfying inputs x admissible CircuitConfig/FriConfig (row widths, constants, challenges 1-3, zk on/off, rate, cap height, pow bits, Fixed/ConstantArity/MinSize, "
          "1-28 queries, Poseidon/Keccak) x fork-join schedule (1-16 simulated workers) x prover entropy stream (stream / all-zero / constant). "
          "Oracle: build ok, prove ok, verify ok, public inputs == reference evaluator, proof survives encode/decode and a second verification. "
          "Hash ops include hash_n_to_m_no_pad with 1-20 outputs (several squeeze blocks); lookup tables are shuffled, may be prefixes / extensions of one another and may be looked up through a program input. distinct = distinct hash of (program shape, inputs, configuration, schedule trace); all executed scenarios are non-trivial (a full prove+verify happened)",
     technique="deterministic simulation: fault-free setup->prover->channel->verifier pipeline under seeded schedule, entropy and configuration; independent reference evaluator",
     text="Seeded exploration of the honest pipeline: every run builds a generated circuit, proves it under a simulated fork-join schedule and a seeded (or degenerate) "
          "entropy source, sends the proof through the byte channel and verifies it; the carried public inputs are compared with an independent reference evaluator "
          "(u128 Goldilocks, schoolbook extension, textbook Poseidon). It is also the fault-free configuration against which the fault-injecting checks are calibrated.",
     note="Sampling over programs/configurations; the reference evaluator reads only constant tables from the library. Completeness failures of probability ~2^-50 by design are not special-cased.")

prop("C03", "fault_enumeration", (240, 900),
     rule="one run = one accepted honest proof (seeded program x configuration with num_query_rounds*lde_bits >= 64 x schedule x entropy); a case = one message fault on it: "
          "an element fault (+1, zero, random, neighbour's value) at an element position of the serialised proof tree (every cap entry word/byte, every opening, every query round's "
          "leaves / siblings / coset evaluations, commit-phase caps, final polynomial, pow witness, public inputs; quick: first+last+2 random positions per component, thorough: "
          "additionally every position of ~3% of the proofs), a list fault (drop last/first, empty, duplicate last, swap adjacent) on a list, the same on the compressed form "
          "(query-position list exempt), or misdelivery with another circuit's verifier data. distinct = distinct hash of (proof scenario, fault); "
          "non-trivial = the fault changed the decoded value and the result is still a value of the proof type",
     technique="deterministic simulation: channel fault injection (element / list / misdelivery faults) on honest proofs between a simulated prover and the real verifier",
     text="Fault enumeration over the message: every component of the proof (plain and compressed) receives element and list faults at first/last/random positions "
          "(every position for a sample of small proofs in the thorough tier); each faulted copy must be rejected by verify / verify_compressed; the proof must also be rejected "
          "under another circuit's verifier data.",
     note="A fault on absorbed data is rejected only with overwhelming probability (<= 2^-64 by the generator's floor q*log2(N) >= 64); panics count as 'not accepted' here and are reported under C18.")

prop("C04", "fault_enumeration", (640, 2500),
     rule="one run = one accepted honest PLONK proof read as a protocol history; a case = one alteration of one transcript component: EVERY absorbed element of the proof "
          "(every word/byte of every cap entry, every opening, every commit-phase cap entry, every final-polynomial coefficient, the pow witness), every public input, every "
          "byte of the circuit digest, and every FRI/degree parameter of the statement (rate, cap height, pow bits, query count, strategy kind and parameter, hiding, degree bits, "
          "arity list) - the matrix is enumerated completely per proof. After each alteration the challenges are recomputed with the public get_challenges and every challenge that "
          "the round model places after the component must differ. distinct = distinct (proof scenario, altered position); every executed alteration is non-trivial (value changed, challenges recomputed)",
     technique="deterministic simulation: message alteration per protocol round of an honest proof history + causality check against a round model of the transcript",
     text="Complete enumeration, per sampled proof, of single-component alterations of the Fiat-Shamir transcript (statement fields, public inputs, every absorbed proof element) "
          "with a causality oracle: all challenges drawn after the altered component must change. Demands dependence, not a particular absorption format.",
     note="PLONK transcripts (2/3 of runs; Poseidon and Keccak, with and without lookups) and STARK transcripts (1/3 of runs; with and without auxiliary lookup polynomials and quotient; config fields, public inputs, trace/auxiliary/quotient caps, openings, FRI messages). The STARK trace length is not a statement field of the API (it is recovered from the proof shape) and is not altered. A challenge word may coincide by chance with probability 2^-64; the index vector is only demanded to change when N^-q <= 2^-64.")

prop("C16", "exploration", (800, 8000),
     rule="one run = one accepted honest proof of a collision-biased scenario (tiny circuits: LDE domains 2^5..2^8, 28-84 query rounds, all arity schedules, cap heights, "
          "with/without lookups and blinding, Poseidon/Keccak); cases: (a) compress / decompress identity, verify_compressed accepts, compressed bytes round-trip; "
          "(b) +1 faults at first/last/random element positions of every component of the compressed message: verify_compressed and decompress-then-verify give the same verdict; "
          "(c) +1 faults on absorbed elements of the plain proof: same verdict before and after compression. distinct = (scenario, schedule trace, fault); "
          "non-trivial = fault changed the value (for (a): always, a full compress/decompress/verify happened)",
     technique="deterministic simulation: second channel encoding of honest proofs under collision-biased query sets, with element faults and verdict-equivalence oracle",
     text="Seeded exploration of proofs whose query sets repeat indices and share cosets (probes count how often), checking that compression is lossless, that the compressed "
          "form of an accepted proof is accepted, and that the two verification routes agree on faulted messages.",
     note="Faults on query-round data of the plain proof are not compressed-and-compared: compression legitimately drops redundant siblings, so the verdict may differ by design.")

prop("C19", "exploration", (40, 600),
     rule="one run = one program on a heterogeneous cluster: every node (process of a build variant: scalar / AVX2 [/ native AVX-512 / debug arithmetic], each with its own compile-time "
          "hash-map seed) builds the circuit under 3 (quick) or 8 (thorough) fork-join schedules with 1-16 simulated workers, proves under each, and emits key bytes, digests of "
          "deterministic intermediates (sigma polynomials, preprocessed polynomials and tree, subgroup, coset shifts, transforms/hashes/Merkle caps of seeded data, the sequential-schedule "
          "proof bytes of unblinded circuits) and proofs; every other node must derive identical bytes/digests and accept every delivered proof. "
          "Every build draws from its own entropy stream (keys must not depend on it). The quick tier has three nodes: scalar release, AVX2 release, and baseline with debug assertions and overflow checks. A case = one comparison (keys under a schedule, pre-grinding transcript under a schedule, keys across two nodes, one delivered proof). "
          "non-trivial = the two sides differ in schedule (>1 worker) or in build variant",
     technique="deterministic simulation: heterogeneous cluster of build variants x hash seeds x seeded schedules; byte-identity of keys/intermediates and cross-acceptance of proofs",
     text="Seeded exploration over schedules, compile-time hash seeds and SIMD builds: identical verifier/common data and deterministic intermediates across all of them, "
          "identical pre-grinding transcripts across schedules, and full cross-acceptance of proofs between nodes (also for blinded circuits).",
     note="Thread scheduling is simulated (linearised fork-join); hash seeds are fixed per variant by CONST_RANDOM_SEED (4 seeds, not all); programs avoid BaseSumGate<B!=2>, which the default gate serializer cannot encode.",
     variants={"quick": ["v0", "v1", "v3"], "thorough": ["v0", "v1", "v2", "v3"]}, driver=True)

prop("C17", "exploration", (720, 5000),
     rule="one run = crash/restart of one seeded circuit (programs over the gates and generators registered in the default serializers, lookups, zk, all configurations; Poseidon; every sixth run a recursion circuit verifying a proof of the program circuit, plain or conditional): "
          "every encodable state (proof, compressed proof, verifier-only, common, verifier circuit data, prover circuit data, whole circuit) is written, decoded by a fresh value, "
          "compared (Eq), re-encoded (byte-identical), and the restored circuit is exercised against the original in both directions (witness generation with the same entropy, "
          "restored prover -> original verifier, original proof -> restored circuit and restored verifier, digests). I/O faults: truncated input at first/last/boundary/random prefixes "
          "(for ~1% of thorough runs every prefix; encodings over 16 KiB: every prefix of the first and last 4 KiB plus an even stride of ~2048 interior prefixes) must not decode; a write error after k bytes must surface as Err. A case = one such check; distinct = (scenario, state, fault offset)",
     technique="deterministic simulation: crash/restart from serialized state through the crate's Read/Write seams with injected truncation and write errors; interchangeability oracle",
     text="Seeded exploration of save/restore: each party's durable state goes through the Write seam, the process state is dropped, a fresh value is restored from bytes and must be "
          "equal, re-encode identically and be interchangeable with the original for witness generation, proving and verifying; truncated inputs and failing writers are injected.",
     note="Equality of generators/gates in the library is by id only, so interchangeability (not Eq) is the deciding oracle. The tail of the compressed-proof encoding (unprefixed public inputs) is exempt from the truncation oracle by format design.")

prop("C18", "fault_enumeration", (144, 1500),
     rule="one run = one accepted honest proof (plain and compressed form) on a hostile channel; a case = one malformed input handed to an entry point. Byte level into "
          "ProofWithPublicInputs::from_bytes / CompressedProofWithPublicInputs::from_bytes (then verify / verify_compressed if it decodes): truncations (boundaries + 40 random; "
          "every prefix for ~10% of thorough runs), bit flips, 8-byte word edits to {0,1,2,2^16,2^32,2^48,2^63,u64::MAX,p,...} at the tail / random aligned offsets (every aligned offset "
          "when dense), random byte strings, splices of two valid encodings. Struct level into verify / verify_compressed / decompress: every list fault (drop first/last, empty, duplicate, swap; "
          "also nested: query rounds without steps, Merkle proofs of wrong length, caps of non-power-of-two length), element faults, and for compressed proofs map faults "
          "(missing / surplus / renamed keys) and out-of-range query positions. STARK proofs (also of lookup tables) additionally get every combination of two or more optional components switched off at once. Oracle: the call returns; no panic, no abort, no single allocation request above 1 GiB; success only for an honest proof. "
          "distinct = (scenario, entry point, fault); non-trivial = the input differs from the honest encoding/value",
     technique="deterministic simulation: hostile-channel fault enumeration (byte and struct level) against decoders and verifiers, with panic capture, a counting allocator and address-space cap",
     text="Fault enumeration over malformed inputs: every fault class of the catalogue at stratified (thorough: dense) positions into each decoding / verification entry point, "
          "observing panics (catch_unwind), aborts (worker death attributed through a progress file), oversized allocation requests (counting global allocator) and false acceptance.",
     note="Known findings (compressed verification path panics) are listed in known_findings.jsonl by panic site; the plain-path cap-length panic is repaired by a fix: commit. STARK entry points are added with the STARK family.",
     abort_is_violation=True)

prop("C02", "exploration", (300, 5000),
     rule="one run = one satisfiable base scenario (program x inputs x configuration with q*lde_bits >= 64 x schedule x entropy) handed to a Byzantine prover; a case = one fault: "
          "a write-event fault (the k-th value a witness generator writes is replaced, generation continues from the faulty value; 6 sampled events, or every event of circuits <= 2^6 rows "
          "for ~5% of thorough runs; pending-generator order also seeded), a cell fault on the finished matrix with every cell its own partition (written routed/advice wires, row 0, last row, "
          "unset wires, members of copy classes, public-input cells, looked-up outputs, table cells; +1/0/1/random), or a strategy: H1 all-zero or arbitrary initial permutation accumulator, "
          "H2 quotient altered for each challenge index, H4 hand-picked grinding witness, H5 altered final polynomial, and H1 combined with a pure copy-class violation. "
          "Oracle A: the independent statement checker SAT (gate constraints per row, copy classes + sigma cycles, lookup pairs/table rows from table data) says violated, or the strategy "
          "breaks exactly one verifier check => no accepted proof. Oracle B: any accepted proof carries public inputs equal to the reference evaluator's. "
          "Input-assignment cases: the honest prover on another assignment of one input (powers of two where range assertions flip, inputs that only another lookup table holds): if the reference evaluator rejects it for a reason no witness can repair (range / width / not in table) no accepted proof may result, otherwise an accepted proof carries the reference outputs. distinct = (scenario, fault); non-trivial = SAT violated or strategy must-reject (accepted-and-satisfied cases are counted trivial)",
     technique="deterministic simulation: Byzantine prover with write-event, cell, copy-class faults and adversarial strategy hooks; independent statement checker and reference evaluator as oracles",
     text="Seeded exploration of a faulty/malicious prover node: single faults are injected into witness generation and into the finished witness, degenerate proving strategies are armed "
          "through cooperative fault points, the real prover runs the protocol anyway and the real verifier must reject whenever an independent statement checker finds the assignment "
          "violating (or the strategy breaks a check); accepted proofs must carry reference-correct outputs.",
     note="SAT trusts the gates' eval_filtered (Oracle B covers constraints dropped consistently from all evaluators for public-deterministic programs). Multiplicity cells cannot be pre-set through the API (set_lookup_wires overwrites them); acceptance probability of a false statement is bounded by 2^-60 per case by the R2/R3 floors.")

prop("C08", "exploration", (120, 4000),
     rule="one run = one lookup-heavy scenario: 1-4 tables (sizes 1, 2, slots-1, slots, slots+1, 2*slots, several rows' worth; arbitrary 16-bit pairs, duplicate outputs, inputs shared between tables), "
          "per table 1 .. 3 rows' worth of lookups with heavy repetition, exact multiples of the slot count and partially filled last rows, unused entries; all configurations. "
          "Fault-free case: proves, verifies, every lookup output equals the table's value (reference evaluator), the statement checker is satisfied. Fault cases (Byzantine prover of C02): "
          "looked-up output +1 / random, looked-up input +1, the output another table holds for the same input, table-row input/output cells, H1 (all-zero accumulator), H2 (quotient altered per challenge) and the strategy \"first lookup row left out of the running sum\" (wrong output in the first LookupGate row of a table while the prover's bookkeeping prover_only.lookup_rows starts the lookup rows one row later): "
          "no accepted proof. Table inputs are progressions or scattered values, in arbitrary order; a table may be a proper prefix or an extension of the previous one; one lookup goes through a program input, and the honest prover is re-run with that input moved to an entry only another table holds / outside every table (=> no accepted proof) / another entry of the same table (=> accepted with that entry's output). distinct = (scenario, fault); non-trivial = the statement checker finds the pair outside its table (or the strategy must be rejected)",
     technique="deterministic simulation: lookup workloads through the honest pipeline and a Byzantine prover with lookup-pair / table-cell faults; table-data statement checker as oracle",
     text="Seeded exploration of lookup arguments in both directions: completeness with reference-checked outputs on boundary table/lookup sizes, and rejection of every single-pair, "
          "other-table and table-cell fault injected into the real prover's witness.",
     note="Multiplicity cells are overwritten by the library inside prove (set_lookup_wires) and cannot be corrupted through the proving API; padding slots conflict with pre-set values and yield a prover error.")

prop("C07", "fault_enumeration", (3000, 12000),
     rule="one run = either (mode gate, 2/3 of runs) a stand-alone row of one built-in gate in a seeded parameterisation (ArithmeticGate/ArithmeticExtensionGate/MulExtensionGate num_ops, "
          "BaseSumGate<2,3,4,8,16> limbs, ConstantGate, CosetInterpolationGate subgroup bits 1-4, ExponentiationGate power bits 1-66, PoseidonGate, PoseidonMdsGate, RandomAccessGate bits x row widths, "
          "ReducingGate / ReducingExtensionGate coefficients) filled by the gate's own generators from boundary-biased inputs, or (mode circuit) every gate row of a generated circuit's real witness "
          "(first 3 rows per gate type fully, then 1/8 sampled). A case = one replacement of ONE generator-written wire of the row by {v+1, 0, 1, p-1, random}: some constraint of that row must become non-zero "
          "(observed on Gate::eval_unfiltered of that row); plus lock-step cases: honest row satisfies all constraints, exactly num_constraints() values, base-batch evaluator (batch sizes 1,4,5,8,9,32) == "
          "extension evaluator, in-circuit evaluator (a circuit evaluating the constraints, witness generated, values read back) == native on honest/perturbed/random rows, declared degree. "
          "CosetInterpolationGate is instantiated with degree bounds below 2^bits (intermediate wires); for gates generic in the extension degree the extension and base-batch evaluators are also compared, and counted against num_constraints(), over the quartic and quintic extensions. distinct = (gate, parameters, row, wire, replacement); all executed cases non-trivial (value changed)",
     technique="deterministic simulation: single-write fault injection into gate rows of the prover's witness memory; differential evaluation of the gate's evaluators on the same rows",
     text="Every wire written by a gate's own generators is replaced in turn and the row's constraints must notice; the evaluators of each gate are compared on identical honest, perturbed and random rows. "
          "The pinning half is single-write fault enumeration per row; the lock-step half is seeded differential sampling.",
     note="Gates without gate-level constraints (LookupGate, LookupTableGate, NoopGate) are covered by C08/C02. Restricted-input gates (BaseSum, Exponentiation, RandomAccess, Poseidon swap) use a layout assumption for the "
          "restricted wire; if it becomes stale the run is skipped, not failed. The degree check calls the library's gate_testing::test_low_degree under catch_unwind. CosetInterpolationGate degrees other than the default, PoseidonMdsGate "
          "and CosetInterpolationGate in real circuits come with the recursion circuits of C06.")

prop("C05", "exploration", (3000, 6000),
     rule="one run = one FRI instance as a two-party system (1-4 oracles of 1-6 polynomials, blinding on/off, degree 2^2..2^8, 1-3 opening points, rate 1-3, cap height 0-3, "
          "Fixed / ConstantArityBits / MinSize schedules, queries so that q*lde_bits >= 64, Poseidon/Keccak; 1/3 of runs also the batched variant over 2-3 polynomial degrees). "
          "Cases: honest proof accepted (openings computed by the reference evaluator); arity-schedule invariants; wrong claimed opening (verifier given a lie under re-derived AND fixed challenges, and a prover that absorbs the lie); "
          "first layer committed to another function; a function of twice the degree folded honestly; insufficient grinding (prover without, verifier with proof of work; legitimately lucky responses counted trivial); "
          "+1 edits at first/last/random positions of every proof component under FIXED challenges (leaves, siblings, coset evaluations, final polynomial; all entries of a commit cap) and under re-derived challenges; "
          "for the batched variant wrong openings per group and element edits under fixed challenges. Every deviation must be rejected. Instances include oracles opened only at a later point; the proof-of-work threshold is probed under fixed challenges (one bit short => reject, exactly enough => accept). distinct = (instance, deviation); all non-trivial except lucky grinding",
     technique="deterministic simulation: FRI prover/verifier as a two-party system with a Byzantine prover catalogue and message faults under fixed and re-derived challenges",
     text="Seeded exploration of FRI instances with the honest prover, a catalogue of Byzantine provers and per-element message faults; holding the challenges fixed isolates every algebraic and Merkle check "
          "of the verifier from Fiat-Shamir masking.",
     note="Only delta~1-far deviations are used (random other function, doubled degree); deviations close to a codeword are legitimately accepted with noticeable probability and are not in the catalogue. "
          "Batched instances are generated so that the folding schedule meets every smaller degree exactly (an assert of the batched prover).")

prop("C09", "exploration", (4000, 20000),
     rule="one run = one STARK instance from the simulator's family (definitions are data: polynomial first-row / last-row / transition / every-row constraints of degree 0-4 over 2-8 columns and 0-4 public inputs, "
          "including a definition without constraints = no quotient; recurrence traces of 2^2..2^10 rows; StarkConfig: 1-3 challenges, rate 1-3, cap, pow, Fixed/ConstantArity/MinSize, Poseidon/Keccak) under a seeded schedule. "
          "Cases: honest prove+verify; single trace-cell faults at rows {0, 1, mid, n-2, n-1 (wrap-around)}; a prover using a changed public input; element and list faults on every component of the accepted proof and its public inputs. "
          "Oracle: the simulator evaluates the definition directly on the (faulted) trace - violated => no accepted proof (prover error or verifier rejection), satisfied (unconstrained cell / public input) => accepted; every tampered proof rejected. "
          "Forging prover strategies for violating traces: no quotient cap; a zero quotient cap with no quotient openings; zeta drawn before the quotient is committed and absorbed (transcript-order attack) - each must be rejected. distinct = (instance, config, fault); non-trivial = the reference check finds the fault violating (or the message fault changed the value)",
     technique="deterministic simulation: STARK prover/verifier under seeded schedules with trace-cell, public-input and proof faults; direct evaluation of the data-defined constraints as reference",
     text="Seeded exploration of a family of STARK definitions in both directions: satisfying traces (also after changing unconstrained cells) prove and verify, every single-cell or public-input violation and every tampered proof is rejected.",
     note="The family is defined in the simulator (the repository's example STARKs are test-only); lookups and cross-table lookups are C10. Build variant v0 has debug assertions off, so the shipped prover reaches the verifier with violating traces.")

prop("C10", "exploration", (3000, 6000),
     rule="one run = either (2/3) one STARK table with column lookups: 1-3 looking columns (single, scaled with constant, linear combination with another column, next-row), optional 0/1 filter columns (boolean-ness stated as a constraint), "
          "a table column (arithmetic progression, optionally with repeated values) and a frequencies column; constraint degree 2 or 3; 2^1..2^9 rows; or (1/3) a multi-table system of 2-3 tables (2^2..2^5 rows each, different lengths) with 1-2 cross-table lookups "
          "(several looking tables, a looking table repeated with another column set and filter = helper columns, two lookups over the same tables, value tuples of width 1-2, repeated tuples, 1-3 challenges), proved and verified by a small multi-table node that follows the "
          "documented flow (commit all traces, observe all caps, get_ctl_data, per table prove_with_commitment, per table CtlCheckVars::from_proof + verify_stark_proof_with_challenges, verify_cross_table_lookups). "
          "Cases: the honest system; single-value faults: a looking value altered / random / replaced by another table value, a looked value altered, a frequency +1 / zeroed, a filter flipped on either side (value missing / extra), an inactive row changed. "
          "Oracle: multiset equality of filtered looking rows and looked rows (with frequencies for column lookups) computed directly: unequal => rejected at one of the verification stages (or prover error), still equal => accepted. "
          "Every fourth filter selects by the filter column's next-row value; in cross-table systems the repeated looking table may be of constraint degree 2 (one looking entry per helper column). distinct = (instance, config, fault); non-trivial = the direct multiset check finds the fault violating",
     technique="deterministic simulation: STARK lookup and multi-table cross-table-lookup workloads with single-value faults on looking side, looked side, frequencies and filters; direct multiset oracle",
     text="Seeded exploration of STARK column lookups and cross-table lookups in both directions with a multiset oracle that shares no code with the logUp / running-sum arguments; the multi-table driver is validated in the fault-free configuration on every run.",
     note="Cross-table topologies are restricted to what the library supports: constraint degree 3, the looked table not among its looking tables, sides of a repeated looking table adjacent (the prover groups them with a consecutive group_by). "
          "Byzantine strategies beyond single-value faults: auxiliary (helper / running-sum) columns computed from the honest trace and committed next to a faulted trace (prove_with_commitment with a mismatching trace), and a cross-table running sum shifted by a constant with the prover's own CtlData. Extra looking values (ctl_extra_looking_sums) are not exercised.")

prop("C06", "exploration", (192, 1200),
     rule="one run = one aggregator scenario: an inner circuit (seeded program, recursion-compatible configuration: Poseidon, with/without lookups and zero-knowledge, 1-3 challenges, arities, 2-8 queries, cap heights) "
          "and an outer circuit (add_virtual_proof_with_pis + verify_proof + re-exposed public inputs; Poseidon or Keccak outer configuration) built once; a case = one inner proof handed to the aggregator: "
          "the honest proof; ~24 (thorough 60) element faults and 4 list faults over all proof components (caps, openings, query-round leaves / siblings / coset evaluations, commit caps, final polynomial, pow witness, public inputs); "
          "proofs of false statements from the Byzantine prover (cell faults); single-check proofs from the strategy hooks H1 (all-zero accumulator), H2 (quotient altered for each challenge index), H4 (grinding witness), H5 (final polynomial). "
          "Oracle: native verify(proof).is_ok()  <=>  the library's own set_proof_with_pis_target + set_verifier_data_target + witness generation succeed AND the independent statement checker is satisfied on the outer witness; "
          "for the first agreeing accept the outer proof is also proved, verified and its public inputs compared with the inner ones. Byzantine strategy 'kernel tamper': in one query round two non-queried evaluations of a FRI coset are shifted along the kernel of the folding map (fold at beta unchanged), so that only the Merkle opening of that coset can notice - also for layers that lie entirely in the cap (self-validated: the native verifier must reject it with a Merkle error). distinct = (scenario, inner proof fault); non-trivial = the inner proof differs from the honest one (or is the honest one)",
     technique="deterministic simulation: aggregator node fed valid, faulted and single-check inner proofs; the native verifier is the reference model for the in-circuit verifier",
     text="Seeded exploration of the in-circuit verifier against the native verifier as reference model, with inner proofs that fail exactly one native check so that a check missing only in the circuit version is not masked.",
     note="Outer acceptance is decided by witness generation + the statement checker SAT (which trusts the gates' eval_filtered); one outer proof per scenario is fully proved and verified. Inner circuits are kept <= 2^9 rows and <= 8 queries so that the outer circuit stays at 2^10-2^12 rows.")

prop("C20", "exploration", (60, 600),
     rule="one run = either (11/12) a conditional aggregator for one inner circuit shape (seeded program x recursion-compatible configuration; a sibling circuit with the same common data and another key is obtained by changing one constant): "
          "inner (proof, key) variants {valid, element-tampered, false statement from the Byzantine prover, valid proof of the sibling circuit, right proof with the sibling's key, sibling's proof with the right key}; "
          "cells of the matrix condition x variant0 x variant1 for conditionally_verify_proof (every cell in which the two branches differ in validity, a third of the others) and condition x variant for conditionally_verify_proof_or_dummy; "
          "the dummy proof of dummy_circuit(common) verifies; or (1/12) a cyclic chain of length 1-3 after the base case (cyclic_base_proof): every link proves, verifies, passes check_cyclic_proof_verifier_data and carries reference-correct "
          "public inputs (textbook Poseidon iteration, counter), and +1 on EVERY embedded verifier-data element is caught by check_cyclic_proof_verifier_data (every 7th also through verify). "
          "Oracle for the matrix: outer assignment + witness generation + statement checker accept  <=>  the native verifier accepts the SELECTED proof under the SELECTED key. "
          "The conditional matrix is repeated with a condition that is a circuit constant (_true / _false); cyclic circuits are built with cap heights 0-4; a Byzantine chain (a link proved under altered verifier data on top of the dummy base case, then an honest step) must not yield an accepted tip. distinct = (scenario, cell); non-trivial = the two branches differ in validity (conditional), every cell (or-dummy, cyclic)",
     technique="deterministic simulation: aggregator with two inner proofs and a condition (full validity matrix), dummy branch, and cyclic chains as histories; native verifier as reference model",
     text="Seeded exploration of conditional verification as a matrix over condition and validity of each branch and key, and of cyclic recursion as multi-step histories with alteration of the embedded verifier data.",
     note="Shapes for which the library's dummy_circuit cannot reproduce the common data (a build-time assert) or whose cap height differs from the outer configuration's are outside the or-dummy variant's preconditions and skip that part (probe counts both). Cyclic chains use the standard recursion configuration (2^12-row circuit).")

prop("C11", "exploration", (384, 1200),
     rule="one run = one STARK aggregator scenario: a STARK definition from the simulator's family (1/4 with column lookups; also definitions without quotient), a recursion-compatible StarkConfig (ConstantArityBits, 1-4 queries, 1-3 challenges), "
          "and the outer circuit add_virtual_stark_proof_with_pis + verify_stark_proof_circuit; fixed-degree mode (1/2 + all lookup runs) or the mode sized for a maximum degree with min_degree_bits_to_support (circuit size searched so that the prover's "
          "preconditions hold; every supported shorter length proved with verifier_circuit_fri_params). Cases: the valid proof(s); in fixed mode a valid proof of ANOTHER length (must be rejected by the circuit); for every proof 8-16 element faults and 3 list faults "
          "over all components incl. public inputs. Oracle: native verify_stark_proof accepts  <=>  set_stark_proof_with_pis_target (with the degree the proof announces) + witness generation + statement checker accept; the first agreeing accept is also proved and verified "
          "and must re-expose the STARK public inputs. distinct = (scenario, proof length, fault); all cases non-trivial (value changed or a valid proof)",
     technique="deterministic simulation: STARK aggregator node fed valid, shorter-length and faulted proofs; native STARK verifier as reference model",
     text="Seeded exploration of the in-circuit STARK verifier against the native verifier in both circuit modes, with the proof family and message-fault classes of C09.",
     note="Variable-degree scenarios whose preconditions (maximal final polynomial at the circuit size, shorter proofs within the circuit's step/final-polynomial budget) cannot be met are skipped and counted. Two list-fault classes in variable-degree mode are known findings "
          "(surplus entries land in padding that the circuit masks out). Cross-table-lookup proofs are not covered.")
