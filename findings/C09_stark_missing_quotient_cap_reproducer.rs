//! SIDE FINDING ON THE UNMODIFIED TREE (not one of the two injected changes).
//!
//! `validate_proof_shape` accepts `quotient_polys_cap: None` for a STARK that does have a
//! quotient (`quotient_polys_cap.is_none() || len == ...`). The verifier then neither observes a
//! quotient cap before sampling zeta nor authenticates the quotient oracle's leaves
//! (`fri_verify_initial_proof` zips `evals_proofs` with the shorter cap list). A cheating prover can
//! therefore choose the "quotient" polynomials AFTER seeing zeta (here: a + b*X with
//! a + b*zeta == vanishing(zeta)/Z_H(zeta)), and obtains an accepted proof for a trace that
//! violates the constraints and for public inputs unrelated to the trace.
//! Copy to starky/tests/ and run:
//!   cargo test -p starky --offline -j 6 --release --test base_accepts_forged_proof_missing_quotient_cap -- --nocapture
//! On the unmodified tree the second test FAILS with `RESULT: Ok(())` (proof accepted).

use core::cmp::{max, min};
use core::iter::successors;
use core::marker::PhantomData;

use plonky2::field::extension::{Extendable, FieldExtension};
use plonky2::field::packed::PackedField;
use plonky2::field::polynomial::PolynomialCoeffs;
use plonky2::field::types::Field;
use plonky2::fri::oracle::PolynomialBatch;
use plonky2::hash::hash_types::RichField;
use plonky2::iop::challenger::Challenger;
use plonky2::iop::ext_target::ExtensionTarget;
use plonky2::plonk::circuit_builder::CircuitBuilder;
use plonky2::plonk::config::{GenericConfig, PoseidonGoldilocksConfig};
use plonky2::util::timing::TimingTree;
use plonky2::util::{log2_ceil, log2_strict};
use starky::config::StarkConfig;
use starky::constraint_consumer::{ConstraintConsumer, RecursiveConstraintConsumer};
use starky::evaluation_frame::{StarkEvaluationFrame, StarkFrame};
use starky::proof::{StarkOpeningSet, StarkProof, StarkProofWithPublicInputs};
use starky::prover::prove;
use starky::stark::Stark;
use starky::util::trace_rows_to_poly_values;
use starky::verifier::verify_stark_proof;

const D: usize = 2;
type C = PoseidonGoldilocksConfig;
type F = <C as GenericConfig<D>>::F;
type FE = <F as Extendable<D>>::Extension;
type H = <C as GenericConfig<D>>::Hasher;

/// State `[x0, x1]` with transition `x0' = x1`, `x1' = x0 * x1 + x0` (degree 2).
/// Public inputs: `[x0_first, x1_first, x1_last]`.
#[derive(Copy, Clone)]
struct MulStark<F: RichField + Extendable<D>, const D: usize> {
    _phantom: PhantomData<F>,
}

const COLUMNS: usize = 2;
const PUBLIC_INPUTS: usize = 3;

impl<F: RichField + Extendable<D>, const D: usize> Stark<F, D> for MulStark<F, D> {
    type EvaluationFrame<FE, P, const D2: usize>
        = StarkFrame<P, P::Scalar, COLUMNS, PUBLIC_INPUTS>
    where
        FE: FieldExtension<D2, BaseField = F>,
        P: PackedField<Scalar = FE>;

    type EvaluationFrameTarget =
        StarkFrame<ExtensionTarget<D>, ExtensionTarget<D>, COLUMNS, PUBLIC_INPUTS>;

    fn eval_packed_generic<FE, P, const D2: usize>(
        &self,
        vars: &Self::EvaluationFrame<FE, P, D2>,
        yield_constr: &mut ConstraintConsumer<P>,
    ) where
        FE: FieldExtension<D2, BaseField = F>,
        P: PackedField<Scalar = FE>,
    {
        let local = vars.get_local_values();
        let next = vars.get_next_values();
        let pis = vars.get_public_inputs();

        yield_constr.constraint_first_row(local[0] - pis[0]);
        yield_constr.constraint_first_row(local[1] - pis[1]);
        yield_constr.constraint_last_row(local[1] - pis[2]);
        yield_constr.constraint_transition(next[0] - local[1]);
        yield_constr.constraint_transition(next[1] - local[0] * local[1] - local[0]);
    }

    fn eval_ext_circuit(
        &self,
        builder: &mut CircuitBuilder<F, D>,
        vars: &Self::EvaluationFrameTarget,
        yield_constr: &mut RecursiveConstraintConsumer<F, D>,
    ) {
        let local = vars.get_local_values();
        let next = vars.get_next_values();
        let pis = vars.get_public_inputs();

        let c = builder.sub_extension(local[0], pis[0]);
        yield_constr.constraint_first_row(builder, c);
        let c = builder.sub_extension(local[1], pis[1]);
        yield_constr.constraint_first_row(builder, c);
        let c = builder.sub_extension(local[1], pis[2]);
        yield_constr.constraint_last_row(builder, c);
        let c = builder.sub_extension(next[0], local[1]);
        yield_constr.constraint_transition(builder, c);
        let prod = builder.mul_add_extension(local[0], local[1], local[0]);
        let c = builder.sub_extension(next[1], prod);
        yield_constr.constraint_transition(builder, c);
    }

    fn constraint_degree(&self) -> usize {
        2
    }
}

type S = MulStark<F, D>;

fn ext(x: F) -> FE {
    <FE as FieldExtension<D>>::from_basefield(x)
}

fn stark() -> S {
    S {
        _phantom: PhantomData,
    }
}

fn honest_rows(n: usize) -> Vec<[F; COLUMNS]> {
    let mut rows = Vec::with_capacity(n);
    let (mut x0, mut x1) = (F::from_canonical_u64(2), F::from_canonical_u64(3));
    for _ in 0..n {
        rows.push([x0, x1]);
        let t = x0 * x1 + x0;
        x0 = x1;
        x1 = t;
    }
    rows
}

/// A cheating prover: replays the honest transcript for an arbitrary (violating) trace, but
/// never computes a quotient. Commits to zero polynomials in its place and omits the
/// quotient openings from the opening set.
fn forge_proof_without_quotient_openings(
    rows: Vec<[F; COLUMNS]>,
    public_inputs: &[F],
    config: &StarkConfig,
) -> StarkProofWithPublicInputs<F, C, D> {
    let stark = stark();
    let mut timing = TimingTree::default();

    let trace = trace_rows_to_poly_values(rows);
    let degree = trace[0].len();
    let degree_bits = log2_strict(degree);
    let fri_params = config.fri_params(degree_bits);
    let rate_bits = config.fri_config.rate_bits;
    let cap_height = config.fri_config.cap_height;
    let g = F::primitive_root_of_unity(degree_bits);

    // Trace commitment.
    let trace_commitment =
        PolynomialBatch::<F, C, D>::from_values(trace, rate_bits, false, cap_height, &mut timing, None);
    let trace_cap = trace_commitment.merkle_tree.cap.clone();

    let mut challenger = Challenger::<F, H>::new();
    challenger.observe_elements(public_inputs);
    config.observe(&mut challenger);
    challenger.observe_cap(&trace_cap);

    // Constraint-binding step of the protocol (replayed verbatim; it only depends on the
    // STARK definition, the public inputs and the transcript so far).
    let alphas_prime = challenger.get_n_challenges(config.num_challenges);
    let pow_degree = max(2, Stark::<F, D>::constraint_degree(&stark) + 1);
    let num_extension_powers = max(1, 50 / log2_ceil(pow_degree) - 1);
    let total_dummy = 2 * COLUMNS;
    let simulating_zetas =
        challenger.get_n_extension_challenges::<D>(total_dummy.div_ceil(num_extension_powers));
    let per_zeta = min(num_extension_powers + 1, total_dummy);
    let dummy: Vec<FE> = simulating_zetas
        .iter()
        .flat_map(|&z| {
            successors(Some(z), move |prev: &FE| Some(prev.exp_u64(pow_degree as u64)))
                .take(per_zeta)
        })
        .collect();
    let zeta_prime = challenger.get_extension_challenge::<D>();

    let n_ext = FE::from_canonical_usize(degree);
    let g_ext = ext(g);
    let z_h = zeta_prime.exp_power_of_2(degree_bits) - FE::ONE;
    let l_0 = z_h / (n_ext * (zeta_prime - FE::ONE));
    let l_last = z_h / (n_ext * (g_ext * zeta_prime - FE::ONE));
    let z_last = zeta_prime - ext(g.inverse());
    let mut consumer = ConstraintConsumer::<FE>::new(
        alphas_prime.iter().map(|&a| ext(a)).collect(),
        z_last,
        l_0,
        l_last,
    );
    let pis_ext: Vec<FE> = public_inputs.iter().map(|&p| ext(p)).collect();
    let vars = StarkFrame::<FE, FE, COLUMNS, PUBLIC_INPUTS>::from_values(
        &dummy[..COLUMNS],
        &dummy[COLUMNS..2 * COLUMNS],
        &pis_ext,
    );
    stark.eval_ext(&vars, &mut consumer);
    challenger.observe_extension_elements::<D>(&consumer.accumulators());

    let alphas = challenger.get_n_challenges(config.num_challenges);
    // NO quotient cap observed.
    let zeta = challenger.get_extension_challenge::<D>();
    let tr_open = StarkOpeningSet::<F, D>::new::<C>(zeta, g, &trace_commitment, None, None, 0, false, &[]);
    let z_h = zeta.exp_power_of_2(degree_bits) - FE::ONE;
    let l_0 = z_h / (n_ext * (zeta - FE::ONE));
    let l_last = z_h / (n_ext * (g_ext * zeta - FE::ONE));
    let z_last = zeta - ext(g.inverse());
    let mut consumer = ConstraintConsumer::<FE>::new(
        alphas.iter().map(|&a| ext(a)).collect(), z_last, l_0, l_last);
    let vars = StarkFrame::<FE, FE, COLUMNS, PUBLIC_INPUTS>::from_values(
        &tr_open.local_values, &tr_open.next_values, &pis_ext);
    stark.eval_ext(&vars, &mut consumer);
    let van = consumer.accumulators();
    let zc: [F; D] = <FE as FieldExtension<D>>::to_basefield_array(&zeta);
    let polys: Vec<PolynomialCoeffs<F>> = van.iter().map(|&v| {
        let d: [F; D] = <FE as FieldExtension<D>>::to_basefield_array(&(v / z_h));
        let b = d[1] / zc[1];
        let a = d[0] - b * zc[0];
        let mut c = vec![F::ZERO; degree];
        c[0] = a; c[1] = b;
        PolynomialCoeffs::new(c)
    }).collect();
    let quotient_commitment =
        PolynomialBatch::<F, C, D>::from_coeffs(polys, rate_bits, false, cap_height, &mut timing, None);
    let openings = StarkOpeningSet::<F, D>::new::<C>(zeta, g, &trace_commitment, None, Some(&quotient_commitment), 0, false, &[]);
    challenger.observe_extension_elements::<D>(&openings.local_values);
    challenger.observe_extension_elements::<D>(openings.quotient_polys.as_ref().unwrap());
    challenger.observe_extension_elements::<D>(&openings.next_values);

    let opening_proof = PolynomialBatch::<F, C, D>::prove_openings(
        &stark.fri_instance(zeta, g, 0, vec![], config),
        &[&trace_commitment, &quotient_commitment],
        &mut challenger,
        &fri_params,
        None,
        None,
        &mut timing,
    );

    let forged = StarkProofWithPublicInputs {
        proof: StarkProof {
            trace_cap,
            auxiliary_polys_cap: None,
            quotient_polys_cap: None,
            openings,
            opening_proof,
        },
        public_inputs: public_inputs.to_vec(),
    };

    // Sanity: our replay of the transcript agrees with the verifier's view of it, so the
    // outcome of verification below is decided by the verifier's checks and not by a
    // transcript mismatch.
    let verifier_view = forged.get_challenges(
        &stark,
        &mut Challenger::<F, H>::new(),
        None,
        None,
        false,
        config,
        None,
    );
    assert_eq!(verifier_view.stark_zeta, zeta, "transcript replay diverged");

    forged
}

#[test]
fn honest_proof_is_accepted() {
    let config = StarkConfig::standard_fast_config();
    let n = 1 << 5;
    let rows = honest_rows(n);
    let pis = [rows[0][0], rows[0][1], rows[n - 1][1]];
    let proof = prove::<F, C, S, D>(
        stark(),
        &config,
        trace_rows_to_poly_values(rows),
        &pis,
        None,
        &mut TimingTree::default(),
    )
    .unwrap();
    assert!(proof.proof.openings.quotient_polys.is_some());
    verify_stark_proof(stark(), proof, &config, None).unwrap();
}

#[test]
fn forged_proof_for_violating_trace_without_quotient_openings_is_rejected() {
    let config = StarkConfig::standard_fast_config();
    let n = 1 << 5;
    let honest = honest_rows(n);

    // Violate an interior transition, the first-row and the last-row constraints at once:
    // the claimed public inputs have nothing to do with the committed trace.
    let mut rows = honest.clone();
    rows[n / 2][1] += F::from_canonical_u64(12345);
    rows[7][0] = F::ZERO;
    let pis = [
        F::from_canonical_u64(1000),
        F::from_canonical_u64(2000),
        F::from_canonical_u64(3000),
    ];

    let forged = forge_proof_without_quotient_openings(rows, &pis, &config);
    let res = verify_stark_proof(stark(), forged, &config, None);
    println!("RESULT: {:?}", res);
    assert!(
        res.is_err(),
        "verifier ACCEPTED a proof for a constraint-violating trace / bogus public inputs \
         that carries no quotient cap (quotient chosen after zeta)"
    );
}
